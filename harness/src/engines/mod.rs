pub mod parse;

use crate::mon::{Ctx, Fail};

pub struct Engine {
    pub name: &'static str,
    pub prop: &'static str,
    pub run: fn(&mut Ctx),
    /// re-run one recorded byte-string case (replay / known-findings)
    pub replay_bytes: Option<fn(&[u8]) -> Vec<Fail>>,
}

pub fn engines() -> Vec<Engine> {
    vec![
        Engine { name: "c02", prop: "C02", run: parse::run_c02, replay_bytes: Some(parse::c02_check) },
        Engine { name: "c03", prop: "C03", run: parse::run_c03, replay_bytes: Some(parse::c03_check) },
        Engine { name: "c13", prop: "C13", run: parse::run_c13, replay_bytes: Some(parse::c13_check) },
    ]
}
