//! C06 (maximize == CLDR answer), C07 (maximize laws), C08 (minimize laws), C18 (tables).

use crate::engines::universe::{for_triples, Universe};
use crate::likely::{DirData, Likely, Triple};
use crate::mon::{self, fail, guard, Ctx, Fail, SigH};
use serde_json::{json, Value};
use unic_langid_impl::likelysubtags;
use unic_langid_impl::subtags::{Language, Region, Script, Variant};
use unic_langid_impl::LanguageIdentifier;
use unic_locale_impl::Locale;

pub type LibTriple = (Language, Option<Script>, Option<Region>);

pub fn to_lib(l: &str, s: Option<&str>, r: Option<&str>) -> Option<LibTriple> {
    Some((
        l.parse().ok()?,
        match s {
            Some(x) => Some(x.parse().ok()?),
            None => None,
        },
        match r {
            Some(x) => Some(x.parse().ok()?),
            None => None,
        },
    ))
}
pub fn from_lib(t: &LibTriple) -> Triple {
    (t.0.as_str().to_string(), t.1.map(|s| s.as_str().to_string()), t.2.map(|s| s.as_str().to_string()))
}
fn show(t: &Triple) -> String {
    let mut s = t.0.clone();
    if let Some(x) = &t.1 {
        s.push('-');
        s.push_str(x);
    }
    if let Some(x) = &t.2 {
        s.push('-');
        s.push_str(x);
    }
    s
}

fn triple_json(l: &str, s: Option<&str>, r: Option<&str>) -> Value {
    json!({"language": l, "script": s, "region": r})
}
fn triple_from_json(v: &Value) -> (String, Option<String>, Option<String>) {
    (
        v["language"].as_str().unwrap_or("und").to_string(),
        v["script"].as_str().map(String::from),
        v["region"].as_str().map(String::from),
    )
}

fn report(ctx: &mut Ctx, fails: Vec<Fail>, l: &str, s: Option<&str>, r: Option<&str>) {
    for f in fails {
        ctx.viol_total += 1;
        ctx.count_dyn(&format!("violation:{}", f.clause));
        if ctx.may_minimise(&f.clause) {
            ctx.add_violation(&f.clause, triple_json(l, s, r), json!(null), f.detail);
        }
    }
}

// ------------------------------------------------------------------ C06

pub fn c06_check_triple(lk: &Likely, l: &str, s: Option<&str>, r: Option<&str>) -> (Vec<Fail>, &'static str) {
    let mut out = vec![];
    let Some(t) = to_lib(l, s, r) else {
        return (vec![fail("harness", format!("cannot build subtags for {:?}", (l, s, r)))], "harness");
    };
    let ans = match guard(|| likelysubtags::maximize(t.0, t.1, t.2)) {
        Ok(a) => a.map(|x| from_lib(&x)),
        Err(p) => return (vec![fail("panic", p)], "panic"),
    };
    let kind = match lk.check_max(l, s, r, &ans) {
        Ok(k) => k,
        Err(why) => {
            out.push(fail("answer", format!("maximize({}) : {}", show(&(l.to_string(), s.map(String::from), r.map(String::from))), why)));
            "wrong"
        }
    };
    // LanguageIdentifier::maximize agrees, bool iff changed
    let mut li = LanguageIdentifier::from_parts(t.0, t.1, t.2, &[]);
    let b = li.maximize();
    let got = (li.language, li.script, li.region);
    let exp = ans.as_ref().and_then(|a| to_lib(&a.0, a.1.as_deref(), a.2.as_deref()));
    match (&exp, b) {
        (Some(e), true) if *e == got => {}
        (None, false) if got == t => {}
        _ => out.push(fail("method-disagrees", format!("likelysubtags::maximize = {:?}, LanguageIdentifier::maximize -> {} / {}", ans, b, li))),
    }
    // the same query with the language built by the other public constructors (TryFrom<Option<_>>, from_bytes on
    // upper-cased text, the integer round trip): the answer is a function of the (language, script, region) asked for,
    // not of the route by which the caller obtained the subtag
    {
        use std::convert::TryFrom;
        let raw: Option<u64> = t.0.into();
        let routes: [(&str, Option<Language>); 3] = [
            ("TryFrom(Some(text))", Language::try_from(Some(l.as_bytes())).ok()),
            ("from_bytes(upper-cased text)", Language::from_bytes(l.to_ascii_uppercase().as_bytes()).ok()),
            ("from_raw_unchecked(Into::<Option<u64>>)", raw.map(|x| unsafe { Language::from_raw_unchecked(x) })),
        ];
        for (route, lang) in routes {
            let Some(lang) = lang else { continue };
            match guard(|| likelysubtags::maximize(lang, t.1, t.2)) {
                Ok(a) => {
                    let a = a.map(|x| from_lib(&x));
                    if a != ans {
                        out.push(fail("answer-depends-on-constructor", format!("maximize({}) = {:?}, but {:?} when the language is built by {}", show(&(l.to_string(), s.map(String::from), r.map(String::from))), ans, a, route)));
                    }
                }
                Err(p) => out.push(fail("panic", p)),
            }
        }
    }
    (out, kind)
}

pub fn c06_replay(v: &Value) -> Vec<Fail> {
    let lk = match Likely::load() {
        Ok(l) => l,
        Err(e) => return vec![fail("harness", e)],
    };
    if let Some(k) = v.get("entry").and_then(|k| k.as_str()) {
        return c06_check_entry(&lk, k);
    }
    let (l, s, r) = triple_from_json(v);
    c06_check_triple(&lk, &l, s.as_deref(), r.as_deref()).0
}

fn c06_check_entry(lk: &Likely, key: &str) -> Vec<Fail> {
    let Some((_, val)) = lk.entries.iter().find(|(k, _)| k == key) else {
        return vec![fail("harness", "no such entry")];
    };
    let mut out = vec![];
    let kl: Result<LanguageIdentifier, _> = key.parse();
    let vl: Result<LanguageIdentifier, _> = val.parse();
    let (Ok(kl), Ok(vl)) = (kl, vl) else {
        return vec![fail("entry-parse", format!("CLDR entry {} -> {} does not parse", key, val))];
    };
    match guard(|| likelysubtags::maximize(kl.language, kl.script, kl.region)) {
        Err(p) => out.push(fail("panic", p)),
        Ok(a) => {
            if a != Some((vl.language, vl.script, vl.region)) {
                out.push(fail("entry", format!("CLDR entry {} -> {}, library maximize gives {:?}", key, val, a.map(|x| show(&from_lib(&x))))));
            }
        }
    }
    let mut m = kl.clone();
    let b = m.maximize();
    if m != vl || !b {
        out.push(fail("entry-method", format!("CLDR entry {} -> {}, LanguageIdentifier::maximize gives {} ({})", key, val, m, b)));
    }
    out
}

pub fn run_c06(ctx: &mut Ctx) {
    let lk = match Likely::load() {
        Ok(l) => l,
        Err(e) => {
            ctx.notes.push(format!("HARNESS-ERROR {}", e));
            return;
        }
    };
    // (1) every CLDR entry except bare und
    for (i, (k, v)) in lk.entries.iter().enumerate() {
        if i % ctx.nshards != ctx.shard || k == "und" {
            continue;
        }
        mon::begin_case(k.as_bytes());
        ctx.evals += 1;
        ctx.count("cldr-entry");
        ctx.sig(SigH::new(6).b(k.as_bytes()).fin());
        if ctx.wants_sample("cldr-entry") {
            ctx.sample("cldr-entry", || json!({"key": k, "cldr_value": v}));
        }
        for f in c06_check_entry(&lk, k) {
            ctx.viol_total += 1;
            ctx.count_dyn(&format!("violation:{}", f.clause));
            if ctx.may_minimise(&f.clause) {
                ctx.add_violation(&f.clause, json!({"entry": k}), json!(null), f.detail);
            }
        }
    }
    // (2) the universe
    let u = Universe::new(&lk, DirData::load().ok().as_ref());
    ctx.extra.insert("universe".into(), json!({"languages": u.langs.len(), "scripts_incl_absent": u.scripts.len(), "regions_incl_absent": u.regions.len(), "triples": u.size()}));
    for_triples(ctx, &u, &lk, &mut |ctx, l, s, r| {
        ctx.evals += 1;
        let (fails, kind) = guard(|| c06_check_triple(&lk, l, s, r)).unwrap_or_else(|p| (vec![fail("panic", p)], "wrong"));
        ctx.count(match kind {
            "entry" => "answer:from-entry",
            "unchanged" => "answer:unchanged",
            "fallback" => "answer:fallback-latitude",
            _ => "answer:wrong",
        });
        if kind != "unchanged" {
            ctx.sig(SigH::new(6).b(l.as_bytes()).b(s.unwrap_or("").as_bytes()).b(r.unwrap_or("").as_bytes()).fin());
            let cat = match (l == "und", s.is_some(), r.is_some()) {
                (false, false, false) => "lang",
                (false, true, false) => "lang+script",
                (false, false, true) => "lang+region",
                (true, true, true) => "und+script+region",
                (true, true, false) => "und+script",
                (true, false, true) => "und+region",
                _ => "other",
            };
            if ctx.wants_sample(cat) {
                ctx.sample(cat, || json!({"input": triple_json(l, s, r), "oracle_primary": lk.primary(l, s, r).map(|t| show(&t))}));
            }
        }
        if !fails.is_empty() {
            report(ctx, fails, l, s, r);
        }
    });
    mon::idle();
    ctx.extra.insert("exhaustive_entries".into(), json!(true));
    ctx.extra.insert("floors".into(), json!({"cldr-entry": 8000, "answer:from-entry": 10000, "answer:unchanged": 10000}));
}

// ------------------------------------------------------------------ C07

const VARIANT_LISTS: &[&[&str]] = &[&[], &["macos"], &["1996", "valencia"], &["abcdefgh", "12345", "1abc"]];
const EXT_SETS: &[&str] = &["", "-u-ca-buddhist-nu-thai", "-t-en-us-k0-dvorak-x-foo", "-u-foo-x-a-b"];

pub fn c07_check_triple(l: &str, s: Option<&str>, r: Option<&str>, deep: bool) -> Vec<Fail> {
    let mut out = vec![];
    let Some(t) = to_lib(l, s, r) else { return out };
    let ans = match guard(|| likelysubtags::maximize(t.0, t.1, t.2)) {
        Ok(a) => a,
        Err(p) => return vec![fail("panic", p)],
    };
    let name = show(&(l.to_string(), s.map(String::from), r.map(String::from)));
    if let Some(y) = &ans {
        if (!t.0.is_empty() && y.0 != t.0) || (t.1.is_some() && y.1 != t.1) || (t.2.is_some() && y.2 != t.2) {
            out.push(fail("given-subtag-changed", format!("maximize({}) = {}", name, show(&from_lib(y)))));
        }
        if y.0.is_empty() || y.1.is_none() || y.2.is_none() {
            out.push(fail("not-all-three", format!("maximize({}) = {} leaves a subtag empty", name, show(&from_lib(y)))));
        }
        if *y == t {
            out.push(fail("some-but-unchanged", format!("maximize({}) reports a change but the triple is identical", name)));
        }
        match guard(|| likelysubtags::maximize(y.0, y.1, y.2)) {
            Ok(None) => {}
            Ok(Some(z)) => out.push(fail("not-idempotent", format!("maximize({}) = {}, maximizing again gives {}", name, show(&from_lib(y)), show(&from_lib(&z))))),
            Err(p) => out.push(fail("panic", p)),
        }
    }
    // method level: bool, fields, variants and extensions untouched
    let nlists = if deep { VARIANT_LISTS.len() } else { 1 };
    // ... with the fixed lists, and with registered real-world variants: every one of them on a bare language (an
    // identifier that has only a language and variants is where a variant could be taken for a hint about script or
    // region), a rotating one elsewhere
    let lexv = crate::lexicon::VARIANTS;
    let nlex = if cfg!(miri) { 1 } else if deep || (s.is_none() && r.is_none()) { lexv.len() } else { 1 };
    let rot = {
        use std::cell::Cell;
        thread_local! { static ROT: Cell<usize> = Cell::new(0); }
        ROT.with(|c| {
            let v = c.get();
            c.set(v.wrapping_add(1));
            v
        })
    };
    for vi in 0..nlists + nlex {
        let vars: Vec<Variant> = if vi < nlists {
            VARIANT_LISTS[(vi + 1) % VARIANT_LISTS.len()].iter().filter_map(|v| v.parse().ok()).collect()
        } else {
            match lexv[(rot + vi - nlists) % lexv.len()].parse::<Variant>() {
                Ok(v) => vec![v],
                Err(_) => continue,
            }
        };
        let deep = deep && vi < nlists;
        let before = LanguageIdentifier::from_parts(t.0, t.1, t.2, &vars);
        let mut li = before.clone();
        let b = li.maximize();
        let changed = li != before;
        if b != changed || b != ans.is_some() {
            out.push(fail("bool", format!("{}: maximize() returned {} but value {} -> {}", name, b, before, li)));
        }
        if let Some(y) = &ans {
            if (li.language, li.script, li.region) != *y {
                out.push(fail("method-disagrees", format!("{} -> {}", before, li)));
            }
        }
        if li.variants().collect::<Vec<_>>() != before.variants().collect::<Vec<_>>() {
            out.push(fail("variants-touched", format!("{} -> {}", before, li)));
        }
        let mut again = li.clone();
        if again.maximize() || again != li {
            out.push(fail("not-idempotent", format!("{} -> {} -> {}", before, li, again)));
        }
        if deep {
            for e in EXT_SETS {
                let Ok(ext) = e.parse::<unic_locale_impl::ExtensionsMap>() else { continue };
                let mut loc = Locale { id: before.clone(), extensions: ext.clone() };
                let es = loc.extensions.to_string();
                let b2 = loc.id.maximize();
                if loc.extensions != ext || loc.extensions.to_string() != es || loc.id != li || b2 != b {
                    out.push(fail("extensions-touched", format!("{}{} -> {}", before, e, loc)));
                }
            }
        }
    }
    out
}

pub fn c07_replay(v: &Value) -> Vec<Fail> {
    let (l, s, r) = triple_from_json(v);
    c07_check_triple(&l, s.as_deref(), r.as_deref(), true)
}

pub fn run_c07(ctx: &mut Ctx) {
    let lk = match Likely::load() {
        Ok(l) => l,
        Err(e) => {
            ctx.notes.push(format!("HARNESS-ERROR {}", e));
            return;
        }
    };
    let u = Universe::new(&lk, DirData::load().ok().as_ref());
    ctx.extra.insert("universe".into(), json!({"languages": u.langs.len(), "scripts_incl_absent": u.scripts.len(), "regions_incl_absent": u.regions.len(), "triples": u.size()}));
    let mut k = 0u64;
    for_triples(ctx, &u, &lk, &mut |ctx, l, s, r| {
        ctx.evals += 1;
        k += 1;
        let deep = k % 97 == 0;
        let Some(t) = to_lib(l, s, r) else {
            ctx.count("setup: CLDR subtag rejected by the library (triple skipped)");
            return;
        };
        let changed = match guard(|| likelysubtags::maximize(t.0, t.1, t.2).is_some()) {
            Ok(c) => c,
            Err(p) => {
                report(ctx, vec![fail("panic", format!("maximize panicked: {}", p))], l, s, r);
                return;
            }
        };
        ctx.count(if changed { "maximize:changed" } else { "maximize:unchanged" });
        if deep {
            ctx.count("with-variants-and-extensions");
        }
        if changed {
            ctx.sig(SigH::new(7).b(l.as_bytes()).b(s.unwrap_or("").as_bytes()).b(r.unwrap_or("").as_bytes()).fin());
            if ctx.wants_sample("changed") {
                let mut li = LanguageIdentifier::from_parts(t.0, t.1, t.2, &[]);
                li.maximize();
                ctx.sample("changed", || json!({"input": triple_json(l, s, r), "maximized": li.to_string()}));
            }
        }
        let fails = guard(|| c07_check_triple(l, s, r, deep)).unwrap_or_else(|p| vec![fail("panic", p)]);
        if !fails.is_empty() {
            report(ctx, fails, l, s, r);
        }
    });
    mon::idle();
    ctx.extra.insert("floors".into(), json!({"maximize:changed": 10000, "maximize:unchanged": 10000, "with-variants-and-extensions": 1000}));
}

// ------------------------------------------------------------------ C08

pub fn c08_check_triple(lk: Option<&Likely>, l: &str, s: Option<&str>, r: Option<&str>, deep: bool) -> Vec<Fail> {
    let mut out = vec![];
    let Some(x) = to_lib(l, s, r) else { return out };
    let name = show(&(l.to_string(), s.map(String::from), r.map(String::from)));
    let mx = |t: &LibTriple| -> LibTriple { likelysubtags::maximize(t.0, t.1, t.2).unwrap_or(*t) };
    let z = match guard(|| likelysubtags::minimize(x.0, x.1, x.2)) {
        Ok(z) => z,
        Err(p) => return vec![fail("panic", p)],
    };
    let maxx = mx(&x);
    if let Some(z) = &z {
        let zs = show(&from_lib(z));
        if mx(z) != maxx {
            out.push(fail("meaning-changed", format!("minimize({}) = {}, which maximizes to {} instead of {}", name, zs, show(&from_lib(&mx(z))), show(&from_lib(&maxx)))));
        }
        if z.0 != maxx.0 || (z.1.is_some() && z.1 != maxx.1) || (z.2.is_some() && z.2 != maxx.2) {
            out.push(fail("foreign-subtag", format!("minimize({}) = {} uses a subtag the maximized original {} lacks", name, zs, show(&from_lib(&maxx)))));
        }
        let n = |t: &LibTriple| t.1.is_some() as u32 + t.2.is_some() as u32;
        if n(z) > n(&x) {
            out.push(fail("lengthened", format!("minimize({}) = {} has more script/region subtags than the original", name, zs)));
        }
        // first of {l, l-r, l-s} that maximizes back
        let cands: [LibTriple; 3] = [(maxx.0, None, None), (maxx.0, None, maxx.2), (maxx.0, maxx.1, None)];
        let first = cands.iter().find(|c| likelysubtags::maximize(c.0, c.1, c.2).map_or(false, |m| m == maxx));
        match first {
            Some(c) if c == z => {}
            other => out.push(fail("not-first-candidate", format!("minimize({}) = {}, first of {{l, l-r, l-s}} that maximizes back is {:?}", name, zs, other.map(|c| show(&from_lib(c)))))),
        }
        match guard(|| likelysubtags::minimize(z.0, z.1, z.2)) {
            Ok(None) => {}
            Ok(Some(z2)) if z2 == *z => {}
            Ok(Some(z2)) => out.push(fail("not-idempotent", format!("minimize({}) = {}, minimizing again gives {}", name, zs, show(&from_lib(&z2))))),
            Err(p) => out.push(fail("panic", p)),
        }
    }
    // minimize(maximize(x)) == minimize(x), as return values of the query
    let via_max = likelysubtags::minimize(maxx.0, maxx.1, maxx.2);
    if via_max != z {
        out.push(fail("min-max-differs", format!("minimize(maximize({})) = {:?} but minimize({}) = {:?}", name, via_max.map(|t| show(&from_lib(&t))), name, z.map(|t| show(&from_lib(&t))))));
    }
    // reference (dictionary) minimisation; the library's own acceptable maximisation is used where
    // C06 grants latitude so that a legal fallback cannot cascade into an alarm here
    if let Some(lk) = lk {
        let mxf = |l: &str, s: Option<&str>, r: Option<&str>| -> Option<Triple> {
            let p = lk.primary(l, s, r);
            if p.is_some() {
                return p;
            }
            let t = to_lib(l, s, r)?;
            let lib = likelysubtags::maximize(t.0, t.1, t.2).map(|x| from_lib(&x));
            match &lib {
                Some(a) if lk.fallbacks(l, s, r).iter().any(|f| f == a) => lib,
                _ => None,
            }
        };
        let exp = lk.ref_minimize(l, s, r, &mxf);
        let got = z.map(|t| from_lib(&t));
        if exp != got {
            out.push(fail("reference-differs", format!("minimize({}) = {:?}, reference implementation gives {:?}", name, got.map(|t| show(&t)), exp.map(|t| show(&t)))));
        }
    }
    // method level (fixed variant lists, and registered real-world variants as in C07)
    let nl = if deep { VARIANT_LISTS.len() } else { 1 };
    let lexv = crate::lexicon::VARIANTS;
    let nlex = if cfg!(miri) { 1 } else if deep || (s.is_none() && r.is_none()) { lexv.len() } else { 1 };
    let rot = {
        use std::cell::Cell;
        thread_local! { static ROT: Cell<usize> = Cell::new(0); }
        ROT.with(|c| {
            let v = c.get();
            c.set(v.wrapping_add(1));
            v
        })
    };
    for vi in 0..nl + nlex {
        let vars: Vec<Variant> = if vi < nl {
            VARIANT_LISTS[(vi + 2) % VARIANT_LISTS.len()].iter().filter_map(|v| v.parse().ok()).collect()
        } else {
            match lexv[(rot + vi - nl) % lexv.len()].parse::<Variant>() {
                Ok(v) => vec![v],
                Err(_) => continue,
            }
        };
        let deep = deep && vi < nl;
        let before = LanguageIdentifier::from_parts(x.0, x.1, x.2, &vars);
        let mut li = before.clone();
        let b = li.minimize();
        if b != z.is_some() {
            out.push(fail("bool", format!("{}: minimize() returned {} but likelysubtags::minimize = {:?}", before, b, z.map(|t| show(&from_lib(&t))))));
        }
        if !b && li != before {
            out.push(fail("false-but-changed", format!("{} -> {}", before, li)));
        }
        if let Some(zz) = &z {
            if (li.language, li.script, li.region) != *zz {
                out.push(fail("method-disagrees", format!("{} -> {}", before, li)));
            }
        }
        if li.variants().collect::<Vec<_>>() != before.variants().collect::<Vec<_>>() {
            out.push(fail("variants-touched", format!("{} -> {}", before, li)));
        }
        let mut again = li.clone();
        again.minimize();
        if again != li {
            out.push(fail("not-idempotent", format!("{} -> {} -> {}", before, li, again)));
        }
        if deep {
            for e in EXT_SETS {
                let Ok(ext) = e.parse::<unic_locale_impl::ExtensionsMap>() else { continue };
                let mut loc = Locale { id: before.clone(), extensions: ext.clone() };
                let b2 = loc.id.minimize();
                if loc.extensions != ext || loc.id != li || b2 != b {
                    out.push(fail("extensions-touched", format!("{}{} -> {}", before, e, loc)));
                }
            }
        }
    }
    out
}

pub fn c08_replay(v: &Value) -> Vec<Fail> {
    let lk = Likely::load().ok();
    let (l, s, r) = triple_from_json(v);
    c08_check_triple(lk.as_ref(), &l, s.as_deref(), r.as_deref(), true)
}

pub fn run_c08(ctx: &mut Ctx) {
    let lk = match Likely::load() {
        Ok(l) => l,
        Err(e) => {
            ctx.notes.push(format!("HARNESS-ERROR {}", e));
            return;
        }
    };
    let u = Universe::new(&lk, DirData::load().ok().as_ref());
    ctx.extra.insert("universe".into(), json!({"languages": u.langs.len(), "scripts_incl_absent": u.scripts.len(), "regions_incl_absent": u.regions.len(), "triples": u.size()}));
    let mut k = 0u64;
    for_triples(ctx, &u, &lk, &mut |ctx, l, s, r| {
        ctx.evals += 1;
        k += 1;
        let deep = k % 97 == 0;
        let Some(t) = to_lib(l, s, r) else {
            ctx.count("setup: CLDR subtag rejected by the library (triple skipped)");
            return;
        };
        let z = match guard(|| likelysubtags::minimize(t.0, t.1, t.2)) {
            Ok(z) => z,
            Err(p) => {
                report(ctx, vec![fail("panic", format!("minimize panicked: {}", p))], l, s, r);
                return;
            }
        };
        let changed = z.map_or(false, |z| z != t);
        ctx.count(if changed { "minimize:changed" } else if z.is_some() { "minimize:restated" } else { "minimize:none" });
        if deep {
            ctx.count("with-variants-and-extensions");
        }
        if changed {
            ctx.sig(SigH::new(8).b(l.as_bytes()).b(s.unwrap_or("").as_bytes()).b(r.unwrap_or("").as_bytes()).fin());
            if ctx.wants_sample("changed") {
                ctx.sample("changed", || json!({"input": triple_json(l, s, r), "minimized": z.map(|t| show(&from_lib(&t)))}));
            }
        }
        let fails = guard(|| c08_check_triple(Some(&lk), l, s, r, deep)).unwrap_or_else(|p| vec![fail("panic", p)]);
        if !fails.is_empty() {
            report(ctx, fails, l, s, r);
        }
    });
    mon::idle();
    ctx.extra.insert("floors".into(), json!({"minimize:changed": 10000, "minimize:none": 1000, "with-variants-and-extensions": 1000}));
}


// ------------------------------------------------------------------ Miri workload (C06/C07/C08 unsafe paths)

/// Small workload for the UB interpreter: table keys (from the hooked statics, not from JSON)
/// through maximize/minimize with the algebraic laws; covers all six `unsafe` lookups.
#[cfg(feature = "hooks")]
pub fn run_likely_miri(ctx: &mut Ctx) {
    let tb = crate::hooktab::load();
    let stride = if ctx.quick() { 16 } else { 1 };
    let (sh, n) = (ctx.shard, ctx.nshards);
    fn d64(x: u64) -> String {
        let b = x.to_le_bytes();
        let k = b.iter().position(|c| *c == 0).unwrap_or(8);
        String::from_utf8_lossy(&b[..k]).into_owned()
    }
    fn d32(x: u64) -> String {
        d64(x)
    }
    let mut keys: Vec<(Option<String>, Option<String>, Option<String>, crate::hooktab::NVal, &'static str)> = vec![];
    let mut idx = 0usize;
    let take = |idx: &mut usize| -> bool {
        let t = (*idx / stride) % n == sh && *idx % stride == 0;
        *idx += 1;
        t
    };
    for (k, v) in tb.lang_only.iter() {
        if take(&mut idx) {
            keys.push((Some(d64(*k)), None, None, *v, "LANG_ONLY"));
        }
    }
    for (k, r, v) in tb.lang_region.iter() {
        if take(&mut idx) {
            keys.push((Some(d64(*k)), None, Some(d32(*r)), *v, "LANG_REGION"));
        }
    }
    for (k, s, v) in tb.lang_script.iter() {
        if take(&mut idx) {
            keys.push((Some(d64(*k)), Some(d32(*s)), None, *v, "LANG_SCRIPT"));
        }
    }
    for (s, r, v) in tb.script_region.iter() {
        if take(&mut idx) {
            keys.push((None, Some(d32(*s)), Some(d32(*r)), *v, "SCRIPT_REGION"));
        }
    }
    for (s, v) in tb.script_only.iter() {
        if take(&mut idx) {
            keys.push((None, Some(d32(*s)), None, *v, "SCRIPT_ONLY"));
        }
    }
    for (r, v) in tb.region_only.iter() {
        if take(&mut idx) {
            keys.push((None, None, Some(d32(*r)), *v, "REGION_ONLY"));
        }
    }
    let mut nth = 0usize;
    for (l, s, r, v, table) in keys {
        let lname = l.clone().unwrap_or_else(|| "und".into());
        if lname == "und" && l.is_some() {
            continue; // the bare-und row is never looked up
        }
        ctx.evals += 1;
        ctx.count(match table {
            "LANG_ONLY" => "miri:LANG_ONLY",
            "LANG_REGION" => "miri:LANG_REGION",
            "LANG_SCRIPT" => "miri:LANG_SCRIPT",
            "SCRIPT_REGION" => "miri:SCRIPT_REGION",
            "SCRIPT_ONLY" => "miri:SCRIPT_ONLY",
            _ => "miri:REGION_ONLY",
        });
        let Some(t) = to_lib(&lname, s.as_deref(), r.as_deref()) else {
            ctx.notes.push(format!("table key {:?} does not parse", (&l, &s, &r)));
            continue;
        };
        let got = likelysubtags::maximize(t.0, t.1, t.2).map(|x| from_lib(&x));
        let want = (v.0.map(d64).unwrap_or_default(), v.1.map(d32), v.2.map(d32));
        if got.as_ref() != Some(&want) {
            ctx.viol_total += 1;
            ctx.add_violation("entry", triple_json(&lname, s.as_deref(), r.as_deref()), json!(null), format!("table {} maps the key to {:?}, maximize gives {:?}", table, want, got));
        }
        // every key is looked up (all six unsafe lookups, every row); the algebraic laws - several more interpreted calls
        // each - run on every key in the quick tier (1/16 of the keys) and on every fourth key in the thorough tier
        nth += 1;
        if !ctx.quick() && nth % 4 != 0 {
            continue;
        }
        let mut fails = c07_check_triple(&lname, s.as_deref(), r.as_deref(), false);
        fails.extend(c08_check_triple(None, &lname, s.as_deref(), r.as_deref(), false));
        // with one subtag more / less, so that the override paths run as well
        fails.extend(c07_check_triple(&lname, s.as_deref().or(Some("Latn")), r.as_deref(), false));
        fails.extend(c07_check_triple(&lname, s.as_deref(), r.as_deref().or(Some("US")), false));
        if !fails.is_empty() {
            report(ctx, fails, &lname, s.as_deref(), r.as_deref());
        }
    }
}
