//! Workload generators: bounded-exhaustive token sequences, grammar-directed random locales,
//! near-miss mutations, corpora.

use crate::refspec::{self, LangId, Loc};
use crate::rng::Rng;
use std::collections::BTreeMap;

/// G-wide: one token per (length 0..9) x (character-class pattern the parsers distinguish).
pub const WIDE: &[&[u8]] = &[
    b"", b"u", b"t", b"x", b"a", b"U", b"1", b"!", b"\x80", // singletons
    b"en", b"k0", b"1a", b"11", b"e!", b"CA", // length 2
    b"abc", b"123", b"a1b", b"und", b"a.b", // length 3
    b"abcd", b"1abc", b"a1bc", b"1234", b"true", b"root", b"ab.d", b"Latn", // length 4
    b"abcde", b"ab1de", b"12345", b"abcdef", // 5-6
    b"abcdefgh", b"abcdefg1", b"12345678", // 8
    b"abcdefghi", b"abcdefgh1", // 9
    b"a*c", b"a c", b"a\0c", b"\xc3\x81\xc3\x81", // hostile bytes
];

/// G-narrow: small alphabet chosen to build long structures.
pub const NARROW: &[&[u8]] = &[
    b"", b"u", b"t", b"x", b"a", b"en", b"k0", b"ca", b"abc", b"abcd", b"1abc", b"abcde", b"true",
    b"toolongsub",
];

/// Language-identifier-only alphabet (C02 deep sweep: positions and variant ordering).
pub const LANGID_ALPHA: &[&[u8]] = &[
    b"", b"en", b"EN", b"und", b"abc", b"abcd", b"Latn", b"lATN", b"US", b"us", b"001", b"12a",
    b"1abc", b"1ABC", b"abcde", b"valencia", b"VALENCIA", b"abcdefgh", b"abcdefghi", b"12345",
    b"a", b"u", b"1a", b"a1",
];

pub fn seq_space(k: usize, maxlen: usize) -> u64 {
    (1..=maxlen).map(|l| (k as u64).pow(l as u32)).sum()
}

/// Enumerate every sequence of 1..=maxlen tokens joined by '-', sharded by index.
pub fn enum_seq(alpha: &[&[u8]], maxlen: usize, shard: usize, nshards: usize, f: &mut dyn FnMut(&[u8])) {
    let k = alpha.len() as u64;
    let mut buf: Vec<u8> = Vec::with_capacity(96);
    for len in 1..=maxlen {
        let total = k.pow(len as u32);
        let mut idx = shard as u64;
        while idx < total {
            buf.clear();
            let mut x = idx;
            for j in 0..len {
                if j > 0 {
                    buf.push(b'-');
                }
                buf.extend_from_slice(alpha[(x % k) as usize]);
                x /= k;
            }
            f(&buf);
            idx += nshards as u64;
        }
    }
}

// ------------------------------------------------------------------ pools

pub const LANGS: &[&str] = &["en", "de", "und", "zh", "fr", "abc", "sr", "abcde", "abcdefgh", "uz", "ar", "he", "pl", "zzzzzzzz", "aa", "undef", "undabcde"];
pub const SCRIPTS: &[&str] = &["Latn", "Cyrl", "Arab", "Hans", "Zzzz", "Aaaa", "Mong"];
pub const REGIONS: &[&str] = &["US", "GB", "001", "419", "CA", "ZZ", "AA", "999", "000", "RS"];
pub const VARIANTS: &[&str] = &[
    "valencia", "macos", "1996", "1abc", "abcde", "12345", "abcdefgh", "a1b2c", "fonipa", "0000",
    "9zzz", "zzzzzzzz", "aaaaa", "1a2b", "nedis", "12345678",
];
pub const ATTRS: &[&str] = &["foo", "abc", "foobar", "abcdefgh", "123", "a1b", "true", "zzz", "aaa", "12345678", "bar", "truely"];
pub const UKEYS: &[&str] = &["ca", "nu", "hc", "co", "1a", "kf", "aa", "zz", "0a", "9z", "ka", "va"];
pub const UTYPES: &[&str] = &["buddhist", "thai", "h12", "true", "gregory", "abc", "abcdefgh", "123", "islamic", "civil", "zzz", "000", "truex", "tru"];
pub const TKEYS: &[&str] = &["k0", "h0", "m0", "s0", "d0", "z9", "a1", "a0", "t0", "x0", "i0"];
pub const TVALUES: &[&str] = &["dvorak", "hybrid", "true", "abc", "12345678", "names", "prprname", "zzz", "000", "und", "truest"];
pub const PRIVATE: &[&str] = &["a", "u", "t", "x", "1", "foo", "abcdefgh", "private", "en", "k0", "zz", "0", "12345678", "true"];

fn rand_of(r: &mut Rng, len: usize, set: &[u8]) -> String {
    (0..len).map(|_| *r.pick(set) as char).collect()
}
const LETTERS: &[u8] = b"abcdefghijklmnopqrstuvwxyz";
const DIGITS: &[u8] = b"0123456789";
const ALNUM: &[u8] = b"abcdefghijklmnopqrstuvwxyz0123456789";

/// One real-world word from the lexicon that is a valid member of its class (the lists also hold near
/// misses such as over-long registry names; those are used as raw tokens by the G-lex phase only).
fn lex(r: &mut Rng, list: &'static [&'static str], ok: fn(&[u8]) -> bool) -> Option<String> {
    for _ in 0..6 {
        let w = *r.pick(list);
        if ok(w.as_bytes()) {
            return Some(w.to_string());
        }
    }
    None
}
const LEX_IN: u32 = 5; // one in five pool draws comes from the real-world lexicon

pub fn gen_lang(r: &mut Rng) -> String {
    if r.chance(1, LEX_IN) {
        if let Some(w) = lex(r, crate::lexicon::LANGS, refspec::is_lang) {
            return w;
        }
    }
    if r.chance(2, 3) {
        r.pick(LANGS).to_string()
    } else {
        let len = *r.pick(&[2usize, 2, 3, 3, 5, 6, 7, 8]);
        rand_of(r, len, LETTERS)
    }
}
pub fn gen_script(r: &mut Rng) -> String {
    if r.chance(1, LEX_IN) {
        if let Some(w) = lex(r, crate::lexicon::SCRIPTS, refspec::is_script) {
            return w;
        }
    }
    if r.chance(2, 3) {
        r.pick(SCRIPTS).to_string()
    } else {
        refspec::title(rand_of(r, 4, LETTERS).as_bytes())
    }
}
pub fn gen_region(r: &mut Rng) -> String {
    if r.chance(1, LEX_IN) {
        if let Some(w) = lex(r, crate::lexicon::REGIONS, refspec::is_region) {
            return w;
        }
    }
    if r.chance(2, 3) {
        r.pick(REGIONS).to_string()
    } else if r.chance(1, 2) {
        rand_of(r, 2, LETTERS).to_ascii_uppercase()
    } else {
        rand_of(r, 3, DIGITS)
    }
}
pub fn gen_variant(r: &mut Rng) -> String {
    if r.chance(1, LEX_IN) {
        if let Some(w) = lex(r, crate::lexicon::VARIANTS, refspec::is_variant) {
            return w;
        }
    }
    if r.chance(2, 3) {
        r.pick(VARIANTS).to_string()
    } else if r.chance(1, 3) {
        let mut s = rand_of(r, 1, DIGITS);
        s.push_str(&rand_of(r, 3, ALNUM));
        s
    } else {
        let len = 5 + r.below(4);
        rand_of(r, len, ALNUM)
    }
}
fn gen_3_8(r: &mut Rng, pool: &[&str]) -> String {
    if r.chance(1, LEX_IN) {
        // attributes, -u- types and -t- values share one production (3-8 alphanumerics)
        let list = if std::ptr::eq(pool.as_ptr(), TVALUES.as_ptr()) { crate::lexicon::TVALUES } else { crate::lexicon::UTYPES };
        if let Some(w) = lex(r, list, refspec::is_utype) {
            return w;
        }
    }
    if r.chance(3, 4) {
        r.pick(pool).to_string()
    } else {
        let len = 3 + r.below(6);
        rand_of(r, len, ALNUM)
    }
}
pub fn gen_ukey(r: &mut Rng) -> String {
    if r.chance(1, LEX_IN) {
        if let Some(w) = lex(r, crate::lexicon::UKEYS, refspec::is_ukey) {
            return w;
        }
    }
    if r.chance(3, 4) {
        r.pick(UKEYS).to_string()
    } else {
        let mut s = rand_of(r, 1, ALNUM);
        s.push_str(&rand_of(r, 1, LETTERS));
        s
    }
}
pub fn gen_tkey(r: &mut Rng) -> String {
    if r.chance(1, LEX_IN) {
        if let Some(w) = lex(r, crate::lexicon::TKEYS, refspec::is_tkey) {
            return w;
        }
    }
    if r.chance(3, 4) {
        r.pick(TKEYS).to_string()
    } else {
        let mut s = rand_of(r, 1, LETTERS);
        s.push_str(&rand_of(r, 1, DIGITS));
        s
    }
}
pub fn gen_private(r: &mut Rng) -> String {
    if r.chance(3, 4) {
        r.pick(PRIVATE).to_string()
    } else {
        let len = 1 + r.below(8);
        rand_of(r, len, ALNUM)
    }
}

// ------------------------------------------------------------------ G-struct

#[derive(Clone, Debug, Default)]
pub struct SId {
    pub lang: String,
    pub script: Option<String>,
    pub region: Option<String>,
    /// in rendering order, may contain duplicates
    pub variants: Vec<String>,
}
#[derive(Clone, Debug, Default)]
pub struct SLoc {
    pub id: SId,
    /// attributes in rendering order (may contain duplicates), keywords with distinct keys
    pub u: Option<(Vec<String>, Vec<(String, Vec<String>)>)>,
    /// tlang, tfields with distinct keys; every tfield has >= 1 value
    pub t: Option<(Option<SId>, Vec<(String, Vec<String>)>)>,
    pub x: Option<Vec<String>>,
    pub u_first: bool,
}

impl SId {
    pub fn tokens(&self, out: &mut Vec<String>) {
        out.push(self.lang.clone());
        if let Some(s) = &self.script {
            out.push(s.clone());
        }
        if let Some(s) = &self.region {
            out.push(s.clone());
        }
        out.extend(self.variants.iter().cloned());
    }
    pub fn expected(&self) -> LangId {
        let mut v: Vec<String> = self.variants.iter().map(|s| s.to_ascii_lowercase()).collect();
        v.sort();
        v.dedup();
        LangId {
            lang: self.lang.to_ascii_lowercase(),
            script: self.script.as_ref().map(|s| refspec::title(s.as_bytes())),
            region: self.region.as_ref().map(|s| s.to_ascii_uppercase()),
            variants: v,
        }
    }
}

impl SLoc {
    pub fn u_tokens(&self, out: &mut Vec<String>) {
        if let Some((attrs, kws)) = &self.u {
            out.push("u".into());
            out.extend(attrs.iter().cloned());
            for (k, vs) in kws {
                out.push(k.clone());
                out.extend(vs.iter().cloned());
            }
        }
    }
    pub fn t_tokens(&self, out: &mut Vec<String>) {
        if let Some((tl, fs)) = &self.t {
            out.push("t".into());
            if let Some(tl) = tl {
                tl.tokens(out);
            }
            for (k, vs) in fs {
                out.push(k.clone());
                out.extend(vs.iter().cloned());
            }
        }
    }
    pub fn tokens(&self) -> Vec<String> {
        let mut out = vec![];
        self.id.tokens(&mut out);
        if self.u_first {
            self.u_tokens(&mut out);
            self.t_tokens(&mut out);
        } else {
            self.t_tokens(&mut out);
            self.u_tokens(&mut out);
        }
        if let Some(x) = &self.x {
            out.push("x".into());
            out.extend(x.iter().cloned());
        }
        out
    }
    /// The value the input denotes, by construction.
    pub fn expected(&self) -> Loc {
        let mut loc = Loc {
            id: self.id.expected(),
            ..Default::default()
        };
        if let Some((attrs, kws)) = &self.u {
            loc.attrs = attrs.iter().map(|s| s.to_ascii_lowercase()).collect();
            loc.attrs.sort();
            loc.attrs.dedup();
            for (k, vs) in kws {
                loc.keywords.insert(
                    k.to_ascii_lowercase(),
                    vs.iter().map(|s| s.to_ascii_lowercase()).filter(|s| s != "true").collect(),
                );
            }
        }
        if let Some((tl, fs)) = &self.t {
            loc.tlang = tl.as_ref().map(|t| t.expected());
            for (k, vs) in fs {
                loc.tfields.insert(
                    k.to_ascii_lowercase(),
                    vs.iter().map(|s| s.to_ascii_lowercase()).filter(|s| s != "true").collect(),
                );
            }
        }
        if let Some(x) = &self.x {
            loc.private = x.iter().map(|s| s.to_ascii_lowercase()).collect();
            loc.private.sort();
        }
        loc
    }
    pub fn has_dup_attr(&self) -> bool {
        if let Some((attrs, _)) = &self.u {
            let mut a: Vec<String> = attrs.iter().map(|s| s.to_ascii_lowercase()).collect();
            let n = a.len();
            a.sort();
            a.dedup();
            a.len() != n
        } else {
            false
        }
    }
}

pub fn gen_sid(r: &mut Rng, allow_dup_variants: bool) -> SId {
    let mut id = SId {
        lang: gen_lang(r),
        ..Default::default()
    };
    if r.chance(1, 3) {
        id.script = Some(gen_script(r));
    }
    if r.chance(1, 2) {
        id.region = Some(gen_region(r));
    }
    // long tail (1/16): lists well beyond any small-buffer / small-list threshold
    // ... and very long ones (1/128): identifiers of several hundred bytes
    let nv = if r.chance(1, 128) { 20 + r.below(45) } else if r.chance(1, 16) { 5 + r.below(8) } else { *r.pick(&[0usize, 0, 0, 1, 1, 2, 3, 4]) };
    for _ in 0..nv {
        let v = gen_variant(r);
        if !allow_dup_variants && id.variants.iter().any(|x| x.eq_ignore_ascii_case(&v)) {
            continue;
        }
        id.variants.push(v);
    }
    if allow_dup_variants && !id.variants.is_empty() && r.chance(1, 4) {
        let d = r.pick(&id.variants).clone();
        id.variants.push(d);
    }
    id
}

/// A random well-formed locale (every extension present has a non-empty body, keys distinct).
/// `dup_attrs`: allow repeated -u- attributes (C03 "either" zone, C09 repetition clause).
pub fn gen_sloc(r: &mut Rng, dup_attrs: bool, dup_variants: bool) -> SLoc {
    let mut l = SLoc {
        id: gen_sid(r, dup_variants),
        u_first: r.chance(1, 2),
        ..Default::default()
    };
    let shape = r.below(16);
    if shape & 1 != 0 {
        // unicode
        let mut attrs = vec![];
        let mut kws: Vec<(String, Vec<String>)> = vec![];
        let long_tail = r.chance(1, 16);
        let na = if long_tail { 4 + r.below(9) } else { *r.pick(&[0usize, 0, 1, 2, 3]) };
        for _ in 0..na {
            let a = gen_3_8(r, ATTRS);
            if !dup_attrs && attrs.iter().any(|x: &String| x.eq_ignore_ascii_case(&a)) {
                continue;
            }
            attrs.push(a);
        }
        if dup_attrs && !attrs.is_empty() && r.chance(1, 3) {
            let d = r.pick(&attrs).clone();
            attrs.push(d);
        }
        let nk = if long_tail { 4 + r.below(6) } else { *r.pick(&[0usize, 1, 1, 2, 3, 4]) };
        for _ in 0..nk {
            let k = gen_ukey(r);
            if kws.iter().any(|(x, _)| x.eq_ignore_ascii_case(&k)) {
                continue;
            }
            let nv = if long_tail && r.chance(1, 3) { 4 + r.below(4) } else { *r.pick(&[0usize, 1, 1, 1, 2, 3]) };
            let vs = (0..nv).map(|_| gen_3_8(r, UTYPES)).collect();
            kws.push((k, vs));
        }
        if attrs.is_empty() && kws.is_empty() {
            attrs.push(gen_3_8(r, ATTRS));
        }
        l.u = Some((attrs, kws));
    }
    if shape & 2 != 0 {
        let tl = if r.chance(2, 3) { Some(gen_sid(r, dup_variants)) } else { None };
        let mut fs: Vec<(String, Vec<String>)> = vec![];
        let long_t = r.chance(1, 16);
        let nf = if long_t { 4 + r.below(6) } else if tl.is_some() { *r.pick(&[0usize, 0, 1, 2, 3]) } else { *r.pick(&[1usize, 1, 2, 3]) };
        for _ in 0..nf {
            let k = gen_tkey(r);
            if fs.iter().any(|(x, _)| x.eq_ignore_ascii_case(&k)) {
                continue;
            }
            let nv = if long_t && r.chance(1, 3) { 4 + r.below(4) } else { *r.pick(&[1usize, 1, 1, 2, 3]) };
            let vs = (0..nv).map(|_| gen_3_8(r, TVALUES)).collect();
            fs.push((k, vs));
        }
        if tl.is_none() && fs.is_empty() {
            fs.push((gen_tkey(r), vec![gen_3_8(r, TVALUES)]));
        }
        l.t = Some((tl, fs));
    }
    if shape & 4 != 0 {
        let n = if r.chance(1, 16) { 5 + r.below(10) } else { 1 + r.below(4) };
        l.x = Some((0..n).map(|_| gen_private(r)).collect());
    }
    // Relations between different parts of one identifier (1 in 6): the same subtag text in two places where it is
    // well-formed in both - the id repeated as tlang, the id's script / region in the tlang, a variant / attribute /
    // type / tvalue repeated as a private tag, a keyword type repeated as attribute or tfield value, a variant shared by
    // id and tlang, two keys with the same value list. Independent draws from the pools produce these only by accident;
    // code that de-duplicates, interns, sorts or compares across containers shows itself only on them.
    if r.chance(1, 6) {
        let words_3_8: Vec<String> = {
            let mut w: Vec<String> = l.id.variants.clone();
            if let Some((a, k)) = &l.u {
                w.extend(a.iter().cloned());
                w.extend(k.iter().flat_map(|(_, v)| v.iter().cloned()));
            }
            if let Some((tl, f)) = &l.t {
                if let Some(tl) = tl {
                    w.extend(tl.variants.iter().cloned());
                }
                w.extend(f.iter().flat_map(|(_, v)| v.iter().cloned()));
            }
            w.retain(|x| (3..=8).contains(&x.len()) && x.bytes().all(|c| c.is_ascii_alphanumeric()));
            w
        };
        match r.below(8) {
            0 => {
                let id = l.id.clone();
                match &mut l.t {
                    Some((tl, _)) => *tl = Some(id),
                    None => l.t = Some((Some(id), vec![])),
                }
            }
            1 => {
                let (sc, rg) = (l.id.script.clone(), l.id.region.clone());
                if let Some((Some(tl), _)) = &mut l.t {
                    tl.script = sc;
                    tl.region = rg;
                }
            }
            2 => {
                if !words_3_8.is_empty() {
                    let w = r.pick(&words_3_8).clone();
                    match &mut l.x {
                        Some(x) => x.push(w),
                        None => l.x = Some(vec![w]),
                    }
                }
            }
            3 => {
                if let Some((attrs, kws)) = &mut l.u {
                    let types: Vec<String> = kws.iter().flat_map(|(_, v)| v.iter().cloned()).collect();
                    if !types.is_empty() {
                        let w = r.pick(&types).clone();
                        if dup_attrs || !attrs.iter().any(|x| x.eq_ignore_ascii_case(&w)) {
                            attrs.push(w);
                        }
                    }
                }
            }
            4 => {
                if !words_3_8.is_empty() {
                    let w = r.pick(&words_3_8).clone();
                    if let Some((_, fs)) = &mut l.t {
                        if let Some((_, vals)) = fs.first_mut() {
                            vals.push(w);
                        }
                    }
                }
            }
            5 => {
                if !words_3_8.is_empty() {
                    let w = r.pick(&words_3_8).clone();
                    if let Some((_, kws)) = &mut l.u {
                        if let Some((_, vals)) = kws.last_mut() {
                            vals.insert(0, w);
                        }
                    }
                }
            }
            6 => {
                if let Some(v) = l.id.variants.first().cloned() {
                    if let Some((Some(tl), _)) = &mut l.t {
                        if dup_variants || !tl.variants.iter().any(|x| x.eq_ignore_ascii_case(&v)) {
                            tl.variants.push(v);
                        }
                    }
                }
            }
            _ => {
                if let Some((_, kws)) = &mut l.u {
                    if kws.len() >= 2 {
                        let v0 = kws[0].1.clone();
                        kws[1].1 = v0;
                    }
                }
                if let Some((_, fs)) = &mut l.t {
                    if fs.len() >= 2 {
                        let v0 = fs[0].1.clone();
                        fs[1].1 = v0;
                    }
                }
            }
        }
    }
    l
}

/// Render tokens with a random case mask and a random '-'/'_' mask.
pub fn render(tokens: &[String], r: &mut Rng, case_mode: u32, sep_mode: u32) -> Vec<u8> {
    let mut out = Vec::new();
    for (i, t) in tokens.iter().enumerate() {
        if i > 0 {
            out.push(match sep_mode {
                0 => b'-',
                1 => b'_',
                _ => {
                    if r.chance(1, 2) {
                        b'-'
                    } else {
                        b'_'
                    }
                }
            });
        }
        for b in t.bytes() {
            out.push(match case_mode {
                0 => b,
                1 => b.to_ascii_lowercase(),
                2 => b.to_ascii_uppercase(),
                _ => {
                    if r.chance(1, 2) {
                        b.to_ascii_uppercase()
                    } else {
                        b.to_ascii_lowercase()
                    }
                }
            });
        }
    }
    out
}

pub fn render_random(tokens: &[String], r: &mut Rng) -> Vec<u8> {
    let cm = r.below(4) as u32;
    let sm = r.below(3) as u32;
    render(tokens, r, cm, sm)
}

pub fn render_plain(tokens: &[String]) -> Vec<u8> {
    tokens.join("-").into_bytes()
}

// ------------------------------------------------------------------ G-mutate

/// Bytes adjacent to each ASCII range, separators, space, NUL, 0x7F, 0x80, 0xFF, range ends.
pub const BOUNDARY_BYTES: &[u8] = &[
    b'a', b'z', b'A', b'Z', b'0', b'9', b'@', b'[', b'`', b'{', b'/', b':', b'-', b'_', b' ', 0, 0x7f,
    0x80, 0xff,
];

pub fn mutate(input: &[u8], r: &mut Rng) -> Vec<u8> {
    let mut v = input.to_vec();
    let n = 1 + r.below(3);
    for _ in 0..n {
        let op = r.below(16);
        match op {
            15 => {
                // glue two neighbouring subtags together with an alphanumeric byte (one over-long run
                // made of two valid halves)
                let seps: Vec<usize> = v.iter().enumerate().filter(|(_, c)| **c == b'-' || **c == b'_').map(|(i, _)| i).collect();
                if !seps.is_empty() {
                    let i = *r.pick(&seps);
                    v[i] = *r.pick(ALNUM);
                }
            }
            12 => {
                // flip one bit of one byte (the neighbours of a valid byte under any masking / folding trick)
                if !v.is_empty() {
                    let i = r.below(v.len());
                    v[i] ^= 1u8 << r.below(8);
                }
            }
            13 => {
                // any byte value at all
                if !v.is_empty() {
                    let i = r.below(v.len());
                    v[i] = r.below(256) as u8;
                }
            }
            14 => {
                // a printable ASCII byte that is not alphanumeric ('+', '.', '~', ...)
                if !v.is_empty() {
                    let i = r.below(v.len());
                    v[i] = *r.pick(b"+.,;:!?~#$%&*()=<>|^'\"\\/@[]{}` ");
                }
            }
            0 | 1 => {
                if !v.is_empty() {
                    let i = r.below(v.len());
                    v[i] = *r.pick(BOUNDARY_BYTES);
                }
            }
            2 => {
                if !v.is_empty() {
                    let i = r.below(v.len());
                    v.remove(i);
                }
            }
            3 => {
                let i = r.below(v.len() + 1);
                v.insert(i, *r.pick(BOUNDARY_BYTES));
            }
            4 => {
                let i = r.below(v.len() + 1);
                v.insert(i, *r.pick(ALNUM));
            }
            5..=9 => {
                let mut toks: Vec<Vec<u8>> = v.split(|c| *c == b'-' || *c == b'_').map(|t| t.to_vec()).collect();
                let i = r.below(toks.len());
                match op {
                    5 => {
                        if toks.len() > 1 {
                            toks.remove(i);
                        }
                    }
                    6 => {
                        let t = toks[i].clone();
                        toks.insert(i, t);
                    }
                    7 => {
                        let j = r.below(toks.len());
                        toks.swap(i, j);
                    }
                    8 => {
                        // stretch to 9 bytes / shrink to 1
                        if r.chance(1, 2) {
                            while toks[i].len() < 9 {
                                let c = *toks[i].last().unwrap_or(&b'a');
                                toks[i].push(c);
                            }
                        } else {
                            toks[i].truncate(1);
                        }
                    }
                    _ => {
                        toks.insert(i, vec![]);
                    }
                }
                v = toks.join(&b'-');
            }
            10 => {
                // insert a singleton + maybe body
                let mut toks: Vec<Vec<u8>> = v.split(|c| *c == b'-' || *c == b'_').map(|t| t.to_vec()).collect();
                let i = r.below(toks.len() + 1);
                toks.insert(i, vec![*r.pick(b"utxaUTX1")]);
                v = toks.join(&b'-');
            }
            _ => {
                if !v.is_empty() {
                    let k = r.below(v.len());
                    v.truncate(k);
                }
            }
        }
    }
    v
}

// ------------------------------------------------------------------ corpus

pub fn repo_root() -> String {
    std::env::var("VMON_REPO").unwrap_or_else(|_| "/repo".into())
}

fn collect_strings(v: &serde_json::Value, out: &mut Vec<String>) {
    match v {
        serde_json::Value::String(s) => out.push(s.clone()),
        serde_json::Value::Array(a) => a.iter().for_each(|x| collect_strings(x, out)),
        serde_json::Value::Object(o) => o.iter().for_each(|(k, x)| {
            out.push(k.clone());
            collect_strings(x, out)
        }),
        _ => {}
    }
}

/// Strings from the repo's fixtures and CLDR data (locale names, likely-subtags keys/values).
pub fn corpus() -> Vec<String> {
    let root = repo_root();
    let mut out: Vec<String> = vec![];
    for f in [
        "unic-langid-impl/tests/fixtures/parsing.json",
        "unic-locale-impl/tests/fixtures/parsing.json",
        "unic-locale-impl/tests/fixtures/serialize.json",
    ] {
        if let Ok(s) = std::fs::read_to_string(format!("{}/{}", root, f)) {
            if let Ok(v) = serde_json::from_str::<serde_json::Value>(&s) {
                collect_strings(&v, &mut out);
            }
        }
    }
    if let Ok(rd) = std::fs::read_dir(format!("{}/unic-langid-impl/data/cldr-misc-full/main", root)) {
        for e in rd.flatten() {
            if let Some(n) = e.file_name().to_str() {
                out.push(n.to_string());
            }
        }
    }
    if let Ok(s) = std::fs::read_to_string(format!("{}/unic-langid-impl/data/likelySubtags.json", root)) {
        if let Ok(v) = serde_json::from_str::<serde_json::Value>(&s) {
            if let Some(m) = v["supplemental"]["likelySubtags"].as_object() {
                for (k, x) in m {
                    out.push(k.clone());
                    if let Some(x) = x.as_str() {
                        out.push(x.to_string());
                    }
                }
            }
        }
    }
    out.extend(
        [
            "en-US-u-hc-h12", "en-t-en-US-k0-dvorak-u-ca-buddhist-x-foo", "und-x-a", "sr-Cyrl-RS-1996-valencia",
            "en-u-foo-bar-ca-buddhist-true-nu-thai", "de-t-de-Latn-AT-1996-h0-hybrid", "ja-t-it-m0-ungegn",
        ]
        .iter()
        .map(|s| s.to_string()),
    );
    out.extend(crate::lexicon::IDS.iter().map(|s| s.to_string()));
    out.sort();
    out.dedup();
    out
}

/// G-lex: every word of the real-world lexicon in every position where a parser could treat it specially
/// (alone, as script / region / variant after several prefixes, in front of a tail, as -u- attribute / key /
/// type, as tlang / tfield key / value, as private tag), all variant pairs, all registry key x type pairs.
/// The inputs are judged by the ordinary oracles; nothing here knows which words matter.
pub fn enum_lex(shard: usize, nshards: usize, f: &mut dyn FnMut(&[u8])) {
    use crate::lexicon as lx;
    let mut words: Vec<&str> = vec![];
    for l in [lx::LANGS, lx::SCRIPTS, lx::REGIONS, lx::VARIANTS, lx::UKEYS, lx::UTYPES, lx::TKEYS, lx::TVALUES] {
        words.extend_from_slice(l);
    }
    words.sort();
    words.dedup();
    const FRAMES: &[(&str, &str)] = &[
        ("", ""), ("en-", ""), ("en-US-", ""), ("und-Latn-", ""), ("en-Latn-US-valencia-", ""), ("de-1996-", "-macos"), ("", "-US"), ("", "-Latn-US-posix"),
        ("en-u-", ""), ("en-u-ca-", ""), ("en-u-", "-gregory"), ("en-u-attr-", "-nu-thai"), ("en-t-", ""), ("en-t-", "-hybrid"), ("en-t-h0-", ""),
        ("en-t-de-", ""), ("en-t-", "-k0-dvorak"), ("en-x-", ""), ("en-US-", "-u-ca-buddhist"), ("sr-Cyrl-RS-", "-t-en-x-a"),
    ];
    let mut idx = 0usize;
    let mut buf: Vec<u8> = Vec::with_capacity(64);
    let mut emit = |parts: &[&str], idx: &mut usize| {
        if *idx % nshards == shard {
            buf.clear();
            for p in parts {
                buf.extend_from_slice(p.as_bytes());
            }
            f(&buf);
        }
        *idx += 1;
    };
    for w in &words {
        for (pre, post) in FRAMES {
            emit(&[pre, w, post], &mut idx);
        }
    }
    for a in lx::VARIANTS {
        for b in lx::VARIANTS {
            emit(&["de-", a, "-", b], &mut idx);
        }
    }
    for k in lx::UKEYS {
        for t in lx::UTYPES {
            emit(&["en-u-", k, "-", t], &mut idx);
            emit(&["en-US-", t, "-u-", k, "-", t], &mut idx);
            // the keyword written last although its key sorts first (serialisation moves it to the front)
            emit(&["en-u-zz-abc-", k, "-", t], &mut idx);
        }
    }
    for k in lx::TKEYS {
        for t in lx::TVALUES {
            emit(&["en-t-", k, "-", t], &mut idx);
        }
    }
    // multi-subtag registry types: every contiguous sub-sequence of their words under every registry key, alone,
    // followed by another keyword, and after an attribute
    for seq in lx::UTYPE_SEQS {
        let w: Vec<&str> = seq.split('-').collect();
        for i in 0..w.len() {
            for j in i + 1..=w.len() {
                let part = w[i..j].join("-");
                for k in lx::UKEYS {
                    emit(&["en-u-", k, "-", &part], &mut idx);
                    emit(&["ar-SA-u-", k, "-", &part, "-nu-arab"], &mut idx);
                    emit(&["en-u-attr-", k, "-", &part, "-t-en"], &mut idx);
                    emit(&["en-u-zz-abc-", k, "-", &part], &mut idx);
                }
            }
        }
    }
    for l in lx::LANGS {
        for s in ["", "-Latn", "-Arab", "-Cyrl"] {
            for r in ["", "-US", "-PK", "-001"] {
                emit(&[l, s, r], &mut idx);
            }
        }
    }
}

pub const SUFFIXES: &[&str] = &[
    "", "-u-ca-buddhist", "-t-en-us", "-x-private", "-u-foo-ca-gregory-nu-thai", "-t-k0-dvorak",
    "-t-de-h0-hybrid-u-hc-h12-x-a-b", "-u-ca-true", "-a-foo", "-u", "-t", "-x", "-u-ca-buddhist-t-en",
];

// keep BTreeMap import used for callers that build maps from generator output
pub type KwMap = BTreeMap<String, Vec<String>>;


/// Well-formed identifiers of every shape for the byte-substitution sweep (every position x all 256 byte values).
pub const SUBST_POOL: &[&str] = &[
    "en",
    "und",
    "de-CH-1996",
    "zh-Hans-CN",
    "es-419",
    "sr_Cyrl_RS_valencia",
    "abcdefgh-Latn-419-abcdefgh-1abc",
    "en-US-u-ca-buddhist",
    "en-u-foo-bar-nu-thai-kf",
    "en-t-de-Latn-AT-k0-dvorak-h0",
    "en-x-a-12345678",
    "fr-u-attr-ca-true-t-es-h0-hybrid-x-priv",
    // every subtag class at its shortest and longest length and with its digit / letter positions exchanged
    "abc",
    "abcde-Latn",
    "ja-JP-x-a",
    "en-u-1a-abc-abcdefgh",
    "en-u-abcdefgh-a1b-c9-123",
    "und-t-und-Cyrl-001-1abc-m0-abc-12345678",
    "EN_LATN_US_VALENCIA_U_CA_GREGORY",
    "en-t-k0-abc-z9-true-x-1-zz",
    "en-a-abc-b-12345678",
];


/// Count-threshold inputs: identifiers whose number of subtags of one kind sits on either side of 2^8 and 2^16 (a small
/// counter that wraps, an index type that is too narrow, a fixed-capacity buffer), each followed by one tail of every
/// class so that whatever the wrapped counter re-enables is offered directly behind it. `which` selects the case;
/// `None` once the enumeration is exhausted.
pub fn long_case(which: usize, big: bool) -> Option<Vec<u8>> {
    let sizes: &[usize] = if big { &[254, 255, 256, 257, 258, 511, 512, 513, 65535, 65536, 65537] } else { &[254, 255, 256, 257, 258, 511, 512, 513] };
    // (prefix, element generator kind, tails)
    const LANGID_TAILS: &[&str] = &["", "-Latn", "-US", "-419", "-abcd", "-a", "-u-ca-abc", "-x-a", "-a0000", "-toolongsubtag", "-en"];
    const U_TAILS: &[&str] = &["", "-ca-abc", "-t-en", "-x-a", "-abcdefghi", "-a0", "-u-ca", "-aaa00000"];
    const T_TAILS: &[&str] = &["", "-k0-abc", "-u-ca-abc", "-x-a", "-abcdefghi", "-en", "-t-en"];
    const X_TAILS: &[&str] = &["", "-a", "-abcdefghi", "-u", ""];
    let shapes: &[(&str, u8, &[&str])] = &[
        ("en", b'v', LANGID_TAILS),
        ("sr-Cyrl-RS", b'v', LANGID_TAILS),
        ("und-419", b'v', LANGID_TAILS),
        ("en-u", b'a', U_TAILS),
        ("en-u-attr", b'k', U_TAILS),
        ("en-u-ca", b't', U_TAILS),
        ("en-t-de-Latn", b'v', T_TAILS),
        ("en-t-k0", b'w', T_TAILS),
        ("en-t-de", b'f', T_TAILS),
        ("en-x", b'p', X_TAILS),
        ("en-u-ca-abc-x", b'p', X_TAILS),
    ];
    let mut idx = which;
    for (prefix, kind, tails) in shapes {
        let per = sizes.len() * tails.len();
        if idx >= per {
            idx -= per;
            continue;
        }
        let n = sizes[idx / tails.len()];
        let tail = tails[idx % tails.len()];
        let mut out: Vec<u8> = Vec::with_capacity(prefix.len() + n * 9 + tail.len());
        out.extend_from_slice(prefix.as_bytes());
        for i in 0..n {
            out.push(b'-');
            match kind {
                // distinct variants / attributes / types / tvalues / private tags: one letter + seven digits
                b'v' | b'a' | b't' | b'w' | b'p' => out.extend_from_slice(format!("{}{:07}", if *kind == b'p' { 'p' } else { 'a' }, n - 1 - i).as_bytes()),
                // distinct keyword keys (letter/digit + letter: 36 * 26 = 936) each with one type
                b'k' => {
                    let k = i % 936;
                    let first = b"abcdefghijklmnopqrstuvwxyz0123456789"[k / 26];
                    out.push(first);
                    out.push(b'a' + (k % 26) as u8);
                    out.extend_from_slice(b"-typ");
                }
                // distinct tfield keys (letter + digit: 260) each with one value
                _ => {
                    let k = i % 260;
                    out.push(b'a' + (k / 10) as u8);
                    out.push(b'0' + (k % 10) as u8);
                    out.extend_from_slice(b"-val");
                }
            }
        }
        out.extend_from_slice(tail.as_bytes());
        return Some(out);
    }
    None
}
