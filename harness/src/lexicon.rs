//! Real-world vocabulary: subtags and identifiers that exist in the IANA language subtag registry, CLDR's
//! supplemental metadata (deprecated / legacy / macro-language codes, legacy variants, grandfathered tags)
//! and the BCP 47 -u- / -t- key/type registry. Synthetic tokens (`abcde`, `1abc`) reach every length and
//! character-class boundary, but code that treats *particular words* specially - a legacy-variant
//! canonicalisation, an alias table, a fast path for common tags - only shows itself on those words. The
//! lists are deliberately broad (hundreds of entries) and carry no knowledge of any particular change.

/// Languages: deprecated ISO 639 codes and their replacements, macro languages, special codes, common ones.
pub const LANGS: &[&str] = &[
    "iw", "he", "in", "id", "ji", "yi", "jw", "jv", "mo", "ro", "sh", "sr", "hr", "bs", "tl", "fil", "no", "nb", "nn", "cmn", "yue", "zh", "mul",
    "zxx", "mis", "art", "tlh", "sgn", "ase", "en", "de", "fr", "es", "pt", "ru", "ja", "ko", "ar", "fa", "ur", "ps", "ku", "ckb", "sd", "ug", "dv",
    "az", "uz", "kk", "ky", "tg", "tk", "mn", "pa", "ks", "ha", "ff", "bm", "ms", "hi", "bn", "ta", "th", "vi", "tr", "el", "hy", "ka", "am", "ti",
    "sw", "zu", "af", "nl", "sv", "da", "fi", "et", "lv", "lt", "pl", "cs", "sk", "sl", "hu", "bg", "mk", "sq", "uk", "be", "ca", "gl", "eu", "oc",
    "cy", "ga", "gd", "br", "is", "fo", "mt", "lb", "rm", "la", "eo", "ia", "vo", "io", "jbo", "cel", "gsw", "nds", "hsb", "dsb", "ast", "haw",
    "chr", "ceb", "kok", "mai", "mni", "sat", "yue", "wuu", "hak", "nan", "gan", "lzh", "och", "prs", "swc", "aam", "adp", "ajp", "als", "arb",
    "ayr", "azj", "bcc", "bgm", "bjd", "ccq", "cjr", "cka", "cmk", "coy", "cqu", "drh", "drw", "dze", "ekk", "emk", "esk", "fat", "gav", "gaz",
    "gbo", "ggn", "gno", "gti", "gug", "guv", "gya", "hdn", "hrr", "ibi", "ike", "ilw", "jeg", "kgc", "kgh", "khk", "kmr", "knc", "kng", "koj",
    "kpv", "krm", "ktr", "kvs", "kwq", "kxe", "kzj", "kzt", "lbk", "lii", "lmm", "lvs", "meg", "mhr", "mnk", "mst", "mup", "mwj", "myt", "nad",
    "ncp", "nnx", "npi", "nts", "ojg", "ory", "oun", "pbu", "pcr", "pes", "plt", "pmc", "pmu", "pnb", "ppa", "ppr", "pry", "puz", "quz", "sca",
    "skk", "spy", "src", "swh", "tdu", "thc", "thx", "tie", "tkk", "tlw", "tmp", "tne", "tnf", "tsf", "twi", "uzn", "uok", "xba", "xia", "xkh",
    "xpe", "xsj", "ybd", "ydd", "yma", "ymt", "yos", "yuu", "zai", "zsm", "zyb", "und",
];

/// Scripts: common ones, the special / private-use codes, the ones CLDR's layout data knows.
pub const SCRIPTS: &[&str] = &[
    "Latn", "Cyrl", "Arab", "Hans", "Hant", "Hani", "Hang", "Kore", "Jpan", "Hira", "Kana", "Hrkt", "Hebr", "Thaa", "Nkoo", "Adlm", "Mong", "Deva",
    "Grek", "Geor", "Armn", "Ethi", "Thai", "Beng", "Guru", "Gujr", "Orya", "Taml", "Telu", "Knda", "Mlym", "Sinh", "Khmr", "Laoo", "Mymr", "Tibt",
    "Syrc", "Samr", "Mand", "Rohg", "Phag", "Brai", "Zzzz", "Zyyy", "Zinh", "Zsym", "Zsye", "Zmth", "Zxxx", "Qaai", "Qaaa", "Qabx", "Aran", "Latf",
    "Latg", "Cyrs", "Hanb", "Bopo", "Tfng", "Vaii", "Yiii", "Cher", "Cans", "Ogam", "Runr", "Goth", "Copt", "Phnx", "Egyp", "Xpeo", "Xsux", "Linb",
];

/// Regions: deprecated / transitional / private-use / exceptionally reserved codes, UN M.49 areas, common ones.
pub const REGIONS: &[&str] = &[
    "US", "GB", "UK", "EU", "EZ", "UN", "ZZ", "XA", "XB", "XK", "QO", "QM", "QZ", "AA", "AN", "BU", "CS", "DD", "FX", "NT", "SU", "TP", "YD", "YU",
    "ZR", "AC", "CP", "CQ", "DG", "EA", "IC", "TA", "DE", "AT", "CH", "FR", "ES", "MX", "BR", "PT", "RU", "UA", "CN", "TW", "HK", "MO", "SG", "JP",
    "KR", "KP", "IN", "PK", "BD", "IR", "AF", "IQ", "SA", "EG", "IL", "PS", "TR", "AZ", "UZ", "KZ", "MN", "RS", "ME", "BA", "HR", "NO", "SJ", "BV",
    "ID", "PH", "001", "002", "003", "005", "009", "011", "013", "014", "015", "017", "018", "019", "021", "029", "030", "034", "035", "039", "053",
    "054", "057", "061", "062", "142", "143", "145", "150", "151", "154", "155", "172", "200", "202", "419", "830", "999", "000", "230", "280", "736",
    "810", "886", "890", "891",
];

/// Variants: the IANA registry's variant subtags plus the legacy words CLDR / ICU canonicalisation knows.
pub const VARIANTS: &[&str] = &[
    "posix", "valencia", "1996", "1901", "1994", "1606nict", "1694acad", "1959acad", "fonipa", "fonupa", "fonxsamp", "fonnapa", "fonkirsh",
    "rozaj", "biske", "nedis", "njiva", "osojs", "solba", "lipaw", "polyton", "monoton", "pinyin", "wadegile", "jyutping", "tongyong",
    "oxendict", "tarask", "arevela", "arevmda", "arkaika", "baku1926", "heploc", "hepburn", "kkcor", "kscor", "uccor", "ucrcor", "scotland",
    "scouse", "aluku", "ndyuka", "pamaka", "ao1990", "colb1945", "abl1943", "alalc97", "bauddha", "vaidika", "laukika", "itihasa", "boont",
    "cornu", "ekavsk", "ijekavsk", "hognorsk", "nynorsk", "bokmal", "luna1918", "petr1708", "saaho", "simple", "sursilv", "surmiran", "rumgr",
    "sutsilv", "puter", "vallader", "ulster", "unifon", "jauer", "emodeng", "barla", "balanka", "bornholm", "dajnko", "bohoric", "metelko",
    "lemosin", "provenc", "nicard", "gascon", "auvern", "vivaraup", "cisaup", "grclass", "grital", "grmistr", "gallo", "fascia", "fodom", "gherd",
    "anpezo", "valbadia", "lengadoc", "mdcegyp", "mdctrans", "newfound", "peano", "pehoeji", "tailo", "tunumiit", "akuapem", "asante",
    "basiceng", "xsistemo", "spanglis", "synnejyl", "viennese", "kociewie", "kleinsch", "ivanchov", "hsistemo", "eeegw", "blasl", "bciav",
    "bcizbl", "akhmimic", "bohairic", "fayyumic", "lycopol", "mesokem", "sahidic", "ltg1929", "ltg2007", "huett", "ruesch", "saigon", "hanoi",
    "erzgeb", "iarpinyi", "windows", "macos", "linux", "compat", "revised", "euro", "preeuro", "phonebk", "stroke", "direct", "posixx",
    "tradnl", "pseudo", "oxford", "hoisan", "jiaoliao", "cmc", "shuangf", "laiyang", "jdpt",
];

/// -u- keys of the registry (plus a few unregistered but well-formed ones).
pub const UKEYS: &[&str] = &[
    "ca", "cf", "co", "cu", "dx", "em", "fw", "hc", "ka", "kb", "kc", "kf", "kh", "kk", "kn", "kr", "ks", "kv", "lb", "lw", "ms", "mu", "nu", "rg",
    "sd", "ss", "tz", "va", "vt", "x0", "t0", "u0", "1a",
];

/// -u- types that the registry / CLDR know for those keys.
pub const UTYPES: &[&str] = &[
    "posix", "buddhist", "chinese", "coptic", "dangi", "ethioaa", "ethiopic", "gregory", "gregorian", "hebrew", "indian", "islamic", "civil",
    "umalqura", "tbla", "rgsa", "islamicc", "iso8601", "japanese", "persian", "roc", "latn", "arab", "arabext", "thai", "hanidec", "fullwide",
    "native", "traditio", "tradit", "finance", "h11", "h12", "h23", "h24", "standard", "search", "phonebk", "phonebook", "pinyin", "stroke",
    "trad", "tradnl", "zhuyin", "emoji", "eor", "dict", "dictionary", "ducet", "unihan", "big5han", "gb2312", "gb2312han", "reformed", "searchjl",
    "account", "usd", "eur", "jpy", "xxx", "text", "default", "sun", "mon", "tue", "wed", "thu", "fri", "sat", "upper", "lower", "false", "no",
    "yes", "true", "level1", "level2", "level3", "level4", "identic", "identical", "primary", "shifted", "noignore", "blanked", "space", "punct",
    "symbol", "currency", "digit", "strict", "normal", "loose", "breakall", "keepall", "phrase", "metric", "ussystem", "uksystem", "imperial",
    "celsius", "fahrenhe", "kelvin", "uszzzz", "gbzzzz", "usca", "gbsct", "gbeng", "none", "utc", "gmt", "uslax", "usnyc", "jeruslm", "unk",
    "codepts", "variant", "amete", "alem", "islamicc", "compat", "hant", "hans", "private",
];

/// Registry -u- types that consist of several subtags (CLDR bcp47 data), and legacy / deprecated spellings that alias to
/// them. The G-lex phase puts every contiguous sub-sequence of their words (the value cut short, or entered from the
/// middle) under every registry key.
pub const UTYPE_SEQS: &[&str] = &[
    "islamic-civil", "islamic-umalqura", "islamic-tbla", "islamic-rgsa", "ethiopic-amete-alem", "gregory-iso8601", "true-false", "phonebk-trad",
    "space-punct-symbol-currency", "latn-digit", "han-kana-latn", "reformed-search-standard",
];

/// -t- field keys of the registry.
pub const TKEYS: &[&str] = &["m0", "s0", "d0", "h0", "i0", "k0", "t0", "x0", "a0", "z9"];

/// -t- field values of the registry.
pub const TVALUES: &[&str] = &[
    "ungegn", "bgn", "names", "alaloc", "buckwalt", "din", "gost", "iso", "mcst", "mns", "satts", "aethiopi", "betamets", "iast", "ewts", "prprname",
    "2007", "1949", "ascii", "accents", "publish", "fwidth", "hwidth", "npinyin", "lower", "upper", "title", "casefold", "fcc", "fcd", "nfc", "nfd",
    "nfkc", "nfkd", "hex", "java", "perl", "xml", "xml10", "unicode", "percent", "css", "plain", "name", "null", "remove", "zawgyi", "morse",
    "hybrid", "handwrit", "pinyin", "wubi", "cangjie", "googlevk", "und", "dvorak", "colemak", "osx", "windows", "android", "chromeos", "101key",
    "102key", "600dpi", "768dpi", "azerty", "extended", "isiri", "nutaaq", "qwerty", "qwertz", "var", "viqr", "ta99", "legacy", "lt1205",
    "lt1582", "patta", "true",
];

/// Whole identifiers from documentation, test suites and registries: legacy locale ids, grandfathered tags
/// (most are ill-formed as Unicode language identifiers - they must simply be rejected), extension examples.
pub const IDS: &[&str] = &[
    "en-US-posix", "en_US_POSIX", "en-US-POSIX-u-hc-h12", "en-US-posix-u-va-posix", "en-US-u-va-posix", "de-1996-posix-valencia", "C", "POSIX",
    "en-posix", "und-posix", "ja-JP-u-ca-japanese", "ja_JP_TRADITIONAL", "th-TH-u-nu-thai", "th_TH_TRADITIONAL", "no-NO-NY", "no_NO_NY",
    "zh-CN-x-private", "hy-arevela", "hy-arevmda", "sr-Latn-ME-ekavsk", "de-CH-1901", "sl-rozaj-biske-1994", "ca-valencia", "ca-ES-valencia",
    "zh-Latn-pinyin", "zh-Latn-CN-pinyin", "und-u-tz-utc", "en-u-rg-uszzzz-sd-usca", "de-u-co-phonebk-ka-shifted", "es-u-co-trad", "es-ES-u-co-tradnl",
    "ar-u-nu-latn", "he-IL-u-ca-hebrew-tz-jeruslm", "und-Cyrl-t-und-latn-m0-ungegn-2007", "und-Latn-t-und-cyrl-m0-ungegn-2007", "en-t-d0-fwidth",
    "ja-t-it-m0-names-prprname", "hi-t-en-h0-hybrid", "en-t-i0-und", "und-t-s0-ascii", "en-t-ja-Kana-t0-und", "root", "und", "mul", "zxx", "iw",
    "iw-IL", "in-ID", "ji", "jw", "mo", "mo-MD", "sh", "sh-Cyrl", "sh-YU", "tl-PH", "no", "no-NO", "nb-NO", "nn-NO", "en-GB-oxendict", "en-GB-oed",
    "i-klingon", "i-default", "i-enochian", "i-hak", "i-lux", "i-navajo", "zh-min-nan", "zh-min", "sgn-BE-FR", "sgn-BE-NL", "sgn-CH-DE",
    "art-lojban", "cel-gaulish", "zh-guoyu", "zh-hakka", "zh-xiang", "no-bok", "no-nyn", "es-419", "sr-YU", "de-DD", "ru-SU", "hy-SU", "en-UK",
    "zh-TW", "zh-HK", "zh-Hant-HK", "zh-Hans-SG", "pa-PK", "pa-Arab", "uz-AF", "az-IR", "ku-Arab", "ks-Deva", "mn-Mong-CN", "ff-Adlm-GN", "yue-Hans",
    "en-u-ca-islamic-civil", "en-u-ca-islamic-umalqura", "ar-SA-u-ca-islamic-umalqura-nu-arab", "en-u-kn", "en-u-kn-true", "en-u-kn-false",
    "en-u-em-emoji", "en-u-fw-mon-hc-h23-ms-metric", "en-u-cu-eur-cf-account", "en-u-lb-strict-lw-keepall-ss-none", "en-u-attr1-attr2-ca-gregory",
    "en-a-bbb-x-a-ccc", "en-a-myext-b-another", "de-419-DE", "a-DE", "ar-a-aaa-b-bbb-a-ccc", "en-GB-x-oed", "x-whatever", "qaa-Qaaa-QM-x-southern",
    "de-Qaaa", "sr-Latn-QM", "sr-Qaaa-RS", "en-US-u-islamcal", "zh-CN-a-myext-x-private", "en-a-myext-b-another", "hak", "yue-HK", "cmn-Hans-CN",
    "zh-cmn-Hans-CN", "zh-yue-HK", "sl-IT-nedis", "de-CH-1996", "es-005", "aaa", "en-Latn-GB-boont-r-extended-sequence-x-private",
    "und-Zzzz", "und-ZZ", "und-001", "und-Hant", "und-Arab-PK", "ii", "i", "tlh", "jbo-Latn-001", "eo-001", "ia-001", "vo-001", "yi-001",
    // platform legacy identifiers (Mozilla, Java, Windows, POSIX, ICU, Apple): most are ill-formed and must simply be rejected
    "ja-JP-mac", "ja_JP_JP", "ja-JP-JP", "th-TH-TH", "th_TH_TH", "nn-NO-NY", "zh-CHS", "zh-CHT", "zh-Hans-CN-CHS", "sr-SP", "sr-SP-Cyrl", "x-IV-mathan",
    "qps-ploc", "qps-plocm", "es-ES_tradnl", "es-ES-tradnl", "C.UTF-8", "en_US.UTF-8", "de_DE@euro", "sr_RS@latin", "ca_ES@valencia", "uz_UZ@cyrillic",
    "en__POSIX", "zh_TW_STROKE", "de__PHONEBOOK", "es__TRADITIONAL", "hi__DIRECT", "zh__PINYIN", "en_US_PREEURO", "de_DE_EURO", "ar_SA@calendar=islamic",
    "en-US-x-lvariant-POSIX", "en@collation=phonebook", "nb_NO_NY", "sh-BA", "sh-CS", "iw-IL-u-ca-hebrew", "tl", "fil-PH", "mo-MD-cyrillic", "aa-saaho",
    "en-GB-scouse", "en-scotland", "sl-nedis", "de-AT-1901", "zh-cmn", "zh-cmn-Hant", "zh-gan", "zh-wuu", "zh-yue", "ber-Tfng", "sgn-US", "sgn-GB",
];

pub fn word_count() -> usize {
    let mut w: Vec<&str> = vec![];
    for l in [LANGS, SCRIPTS, REGIONS, VARIANTS, UKEYS, UTYPES, TKEYS, TVALUES] {
        w.extend_from_slice(l);
    }
    w.sort();
    w.dedup();
    w.len()
}
