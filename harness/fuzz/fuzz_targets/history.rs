#![no_main]
//! libFuzzer target: operation histories decoded from the input, lock-step against the model (C10).
use libfuzzer_sys::fuzz_target;
use std::cell::RefCell;
use vmon::engines::fuzzrec::Rec;
use vmon::likely::Likely;
use vmon::model::{alphabet, Op};

struct St {
    rec: Rec,
    ops: Vec<Op>,
    lk: Option<Likely>,
}
thread_local! { static ST: RefCell<Option<St>> = RefCell::new(None); }

fuzz_target!(|data: &[u8]| {
    ST.with(|s| {
        let mut s = s.borrow_mut();
        let st = s.get_or_insert_with(|| St { rec: Rec::new(), ops: alphabet(), lk: Likely::load().ok() });
        st.rec.check_history(data, &st.ops, st.lk.as_ref());
    });
});
