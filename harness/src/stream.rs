//! The shared byte-string workload: bounded-exhaustive token sequences, rendered random
//! locales, near-miss mutations, corpus strings with extension suffixes.

use crate::gen;
use crate::mon::{self, Ctx};
use crate::rng::{mix, Rng};

#[derive(Clone, Copy, Debug, PartialEq, Eq)]
pub enum Src {
    Wide,
    Narrow,
    LangidAlpha,
    Struct,
    Mutate,
    Corpus,
    Subst,
    Canary,
    Lex,
    Unicode,
    Long,
}
impl Src {
    pub fn name(self) -> &'static str {
        match self {
            Src::Wide => "g_wide",
            Src::Narrow => "g_narrow",
            Src::LangidAlpha => "g_langid",
            Src::Struct => "g_struct",
            Src::Mutate => "g_mutate",
            Src::Corpus => "g_corpus",
            Src::Subst => "g_subst",
            Src::Canary => "g_canary",
            Src::Lex => "g_lex",
            Src::Unicode => "g_unicode",
            Src::Long => "g_long",
        }
    }
}

#[derive(Clone, Debug)]
pub struct StreamCfg {
    pub wide_len: usize,
    pub narrow_len: usize,
    pub langid_len: usize,
    pub n_struct: u64,
    pub n_mutate: u64,
    pub corpus: bool,
}

impl StreamCfg {
    /// Standard sizes for the parser properties.
    pub fn standard(quick: bool) -> Self {
        if quick {
            StreamCfg { wide_len: 4, narrow_len: 6, langid_len: 4, n_struct: 200_000, n_mutate: 200_000, corpus: true }
        } else {
            StreamCfg { wide_len: 5, narrow_len: 7, langid_len: 5, n_struct: 10_000_000, n_mutate: 10_000_000, corpus: true }
        }
    }
    pub fn scaled(mut self, wide: usize, narrow: usize, langid: usize) -> Self {
        self.wide_len = wide;
        self.narrow_len = narrow;
        self.langid_len = langid;
        self
    }
    pub fn describe(&self) -> String {
        format!(
            "G-wide: all sequences of <= {} subtags over {} boundary-class tokens ({} inputs); G-narrow: <= {} over {} tokens ({}); G-langid: <= {} over {} tokens ({}); {} rendered random well-formed locales; {} near-miss mutations (1-3 edits, one third directly after the unmutated input); byte-substitution sweep (every position of {} identifiers x 256 byte values, each after its original); Unicode sweep (the same identifiers wrapped in 16 kinds of white space / invisible characters, each character replaced by full-width forms, case-mapping look-alikes, homoglyphs, non-ASCII digits); real-world lexicon ({} words x 20 frames, variant pairs, key x type pairs); corpus x {} suffixes: {}",
            self.wide_len, gen::WIDE.len(), gen::seq_space(gen::WIDE.len(), self.wide_len),
            self.narrow_len, gen::NARROW.len(), gen::seq_space(gen::NARROW.len(), self.narrow_len),
            self.langid_len, gen::LANGID_ALPHA.len(), gen::seq_space(gen::LANGID_ALPHA.len(), self.langid_len),
            self.n_struct, self.n_mutate, gen::SUBST_POOL.len(), crate::lexicon::word_count(), gen::SUFFIXES.len(), self.corpus
        )
    }
}

/// Well-formed identifiers of every shape, re-parsed after every third input of the stream. A parse
/// must not depend on what was parsed before: if an earlier input (in particular a *rejected* one)
/// leaves state behind - a scratch buffer that is only emptied on the success path, a memo - the
/// canary that follows it comes out wrong and the ordinary per-input oracle reports it.
pub const CANARIES: &[&str] = &[
    "de-1996",
    "ca-ES-valencia",
    "en-u-nu-thai",
    "en-u-foo-ca-buddhist",
    "en-t-de-k0-dvorak",
    "und-Latn-x-priv",
    "sr-Cyrl-RS-u-ca-gregory-t-en-h0-hybrid-x-a",
    "zh-Hant-TW",
];

/// Ill-formed inputs that fail *late* - after the parser has already consumed variants, attributes, keyword
/// types, a tlang, tfields or private tags. A parser that keeps working state between calls (scratch buffer,
/// partially built value) and tidies it only on the success path is left dirty by exactly such inputs.
pub const POISON: &[&str] = &[
    "ca-ES-valencia-u-ca-gregory",
    "sl-rozaj-biske-!",
    "en-fonipa-",
    "en-u-attr1-attr2-ca-buddhist-h0",
    "en-u-ca-buddhist-gregory-1$",
    "en-t-de-latn-1996-k0-dvorak-!!",
    "en-t-h0-hybrid-k0",
    "en-x-abc-def-toolongsubtag",
    "en-u-ca-buddhist-t-h0-hybrid-u-nu-thai",
    "de-1996-valencia-posix-a-b",
    "en-Latn-US-macos-x-",
    "sr-Cyrl-RS-1996-valencia-abcd",
];

/// Hostile neighbour for value-level checks (C05, C12, C17, C19 and the histories of C10): for one judged
/// re-parse in four, a late-failing ill-formed input is parsed (by one or both parsers) immediately before it.
/// The choice is a pure function of `key` (the text about to be parsed), so a replay makes the same calls.
pub fn hostile_neighbour(key: &[u8]) {
    use unic_langid_impl::LanguageIdentifier;
    use unic_locale_impl::Locale;
    let h = crate::mon::SigH::new(0x905).b(key).fin();
    if h % 4 != 0 {
        return;
    }
    let p = POISON[((h >> 2) % POISON.len() as u64) as usize].as_bytes();
    match (h >> 8) % 3 {
        0 => {
            let _ = crate::mon::guard(|| LanguageIdentifier::from_bytes(p).is_ok());
        }
        1 => {
            let _ = crate::mon::guard(|| Locale::from_bytes(p).is_ok());
        }
        _ => {
            let _ = crate::mon::guard(|| Locale::from_bytes(p).is_ok());
            let _ = crate::mon::guard(|| LanguageIdentifier::from_bytes(p).is_ok());
        }
    }
}

/// Drive every input of this shard's share of the stream through `f`.
pub fn byte_stream(ctx: &mut Ctx, cfg: &StreamCfg, f0: &mut dyn FnMut(&mut Ctx, &[u8], Src)) {
    let mut tick = 0usize;
    let mut with_canary = |ctx: &mut Ctx, b: &[u8], src: Src| {
        ctx.remember(b);
        f0(ctx, b, src);
        tick += 1;
        if tick % 6 == 5 {
            // a late-failing input directly in front of the canary
            let p = POISON[(tick / 6) % POISON.len()].as_bytes();
            mon::begin_case(p);
            ctx.remember(p);
            f0(ctx, p, Src::Canary);
        }
        if tick % 3 == 0 {
            let c = CANARIES[(tick / 3) % CANARIES.len()].as_bytes();
            mon::begin_case(c);
            ctx.remember(c);
            f0(ctx, c, Src::Canary);
        }
    };
    let f: &mut dyn FnMut(&mut Ctx, &[u8], Src) = &mut with_canary;
    let (shard, n) = (ctx.shard, ctx.nshards);
    if cfg.wide_len > 0 {
        gen::enum_seq(gen::WIDE, cfg.wide_len, shard, n, &mut |b| {
            mon::begin_case(b);
            f(ctx, b, Src::Wide)
        });
    }
    if cfg.narrow_len > 0 {
        gen::enum_seq(gen::NARROW, cfg.narrow_len, shard, n, &mut |b| {
            mon::begin_case(b);
            f(ctx, b, Src::Narrow)
        });
    }
    if cfg.langid_len > 0 {
        gen::enum_seq(gen::LANGID_ALPHA, cfg.langid_len, shard, n, &mut |b| {
            mon::begin_case(b);
            f(ctx, b, Src::LangidAlpha)
        });
    }
    if cfg.corpus {
        gen::enum_lex(shard, n, &mut |b| {
            mon::begin_case(b);
            f(ctx, b, Src::Lex)
        });
    }
    mon::idle();
    let per = |total: u64| total / n as u64 + if (shard as u64) < total % n as u64 { 1 } else { 0 };
    let mut r = Rng::new(mix(&[ctx.seed, shard as u64, 0x5712]));
    let corpus = if cfg.corpus || cfg.n_mutate > 0 { gen::corpus() } else { vec![] };
    // Echo cases: every monitored call is a pure function of its input, so each random phase
    // re-issues some inputs (directly after themselves, or after one other call). Each echo is
    // judged by the same oracle; a result that depends on the call history (memo, cache keyed on
    // too little) shows up as a violation on the echo.
    let mut prev: Vec<u8> = Vec::new();
    for _ in 0..per(cfg.n_struct) {
        ctx.rng_state = Some(r.state());
        let sl = gen::gen_sloc(&mut r, true, true);
        let b = gen::render_random(&sl.tokens(), &mut r);
        mon::begin_case(&b);
        f(ctx, &b, Src::Struct);
        if r.chance(1, 8) {
            f(ctx, &b, Src::Struct);
        }
        if r.chance(1, 16) && !prev.is_empty() {
            mon::begin_case(&prev);
            f(ctx, &prev, Src::Struct);
        }
        prev = b;
    }
    for i in 0..per(cfg.n_mutate) {
        ctx.rng_state = Some(r.state());
        let base: Vec<u8> = if i % 3 == 0 && !corpus.is_empty() {
            let mut s = r.pick(&corpus).clone();
            s.push_str(*r.pick(gen::SUFFIXES));
            s.into_bytes()
        } else {
            let sl = gen::gen_sloc(&mut r, true, true);
            gen::render_random(&sl.tokens(), &mut r)
        };
        let b = gen::mutate(&base, &mut r);
        if i % 3 == 1 {
            // the unmutated input directly before its near miss (an answer remembered from the
            // well-formed call must not leak into the ill-formed one)
            mon::begin_case(&base);
            f(ctx, &base, Src::Mutate);
        }
        mon::begin_case(&b);
        f(ctx, &b, Src::Mutate);
        if r.chance(1, 8) {
            f(ctx, &b, Src::Mutate);
        }
        if r.chance(1, 16) && !prev.is_empty() {
            mon::begin_case(&prev);
            f(ctx, &prev, Src::Mutate);
        }
        prev = b;
    }
    ctx.rng_state = None;
    if cfg.corpus {
        // count thresholds: identifiers with 2^8 +- 2 and 2^9 +- 1 (thorough: also 2^16 +- 1) subtags of one kind, each
        // followed by a tail of every class (g_long). Keys repeat beyond 936 / 260 distinct ones, which puts those inputs
        // outside C03 (duplicate keys) - the other monitors still judge them.
        let big = cfg.wide_len >= 5;
        let mut k = 0usize;
        while let Some(b) = gen::long_case(k, big) {
            if k % n == shard {
                mon::begin_case_scaled(&b[..b.len().min(64)], 60);
                f(ctx, &b, Src::Long);
            }
            k += 1;
        }
        mon::idle();
    }
    if cfg.corpus {
        // byte-substitution sweep: every position of every pool identifier x all 256 byte values,
        // each near miss directly after the identifier it was made from
        let mut idx = 0usize;
        for base in gen::SUBST_POOL {
            let base = base.as_bytes();
            for pos in 0..base.len() {
                if idx % n == shard {
                    let mut b = base.to_vec();
                    for val in 0..=255u8 {
                        if val == base[pos] {
                            continue;
                        }
                        b[pos] = val;
                        mon::begin_case(base);
                        f(ctx, base, Src::Subst);
                        mon::begin_case(&b);
                        f(ctx, &b, Src::Subst);
                    }
                }
                idx += 1;
            }
        }
    }
    if cfg.corpus {
        // ASCII / Unicode confusions: every pool identifier wrapped in ASCII and non-ASCII white space and
        // invisible characters (trim vs trim_ascii), and with each character replaced by a non-ASCII character
        // that is "the same" under Unicode case mapping, numeric value or appearance (Kelvin sign -> k, long s
        // -> S, dotless / dotted i, full-width forms, Cyrillic homoglyphs, Arabic-Indic and full-width digits).
        // All of these are ill-formed; code that uses to_lowercase / is_alphabetic / is_numeric / trim where the
        // ASCII variant is meant accepts some of them. Each follows its well-formed original.
        const WS: &[&str] = &[" ", "\t", "\n", "\r", "\x0b", "\x0c", "\u{85}", "\u{a0}", "\u{1680}", "\u{2003}", "\u{2028}", "\u{202f}", "\u{3000}", "\u{feff}", "\u{200b}", "\0"];
        let mut idx = 0usize;
        for base in gen::SUBST_POOL.iter().chain(CANARIES.iter()) {
            let mut cases: Vec<String> = vec![];
            for w in WS {
                cases.push(format!("{}{}", w, base));
                cases.push(format!("{}{}", base, w));
                cases.push(format!("{}{}{}", w, base, w));
            }
            let chars: Vec<char> = base.chars().collect();
            for (i, c) in chars.iter().enumerate() {
                let mut subs: Vec<char> = vec![];
                if c.is_ascii_graphic() {
                    subs.push(char::from_u32(0xFF01 + (*c as u32 - 0x21)).unwrap()); // full-width form
                }
                match c.to_ascii_lowercase() {
                    'k' => subs.push('\u{212a}'),
                    's' => subs.push('\u{17f}'),
                    'i' => subs.extend(['\u{130}', '\u{131}']),
                    'a' => subs.extend(['\u{430}', '\u{e5}', '\u{212b}']),
                    'e' => subs.extend(['\u{435}', '\u{e9}']),
                    'o' => subs.extend(['\u{43e}', '\u{3bf}']),
                    'c' => subs.push('\u{441}'),
                    'n' => subs.push('\u{f1}'),
                    'u' => subs.push('\u{fc}'),
                    '0'..='9' => subs.extend([char::from_u32(0x660 + (*c as u32 - 0x30)).unwrap(), '\u{b2}', '\u{2460}']),
                    _ => {}
                }
                for sub in subs {
                    let mut t: String = chars[..i].iter().collect();
                    t.push(sub);
                    t.extend(chars[i + 1..].iter());
                    cases.push(t);
                }
            }
            for cse in cases {
                if idx % n == shard {
                    mon::begin_case(base.as_bytes());
                    f(ctx, base.as_bytes(), Src::Unicode);
                    mon::begin_case(cse.as_bytes());
                    f(ctx, cse.as_bytes(), Src::Unicode);
                }
                idx += 1;
            }
        }
    }
    if cfg.corpus {
        let mut idx = 0usize;
        for s in &corpus {
            for suf in gen::SUFFIXES {
                if idx % n == shard {
                    let mut b = s.clone().into_bytes();
                    b.extend_from_slice(suf.as_bytes());
                    mon::begin_case(&b);
                    f(ctx, &b, Src::Corpus);
                }
                idx += 1;
            }
        }
    }
    mon::idle();
}
