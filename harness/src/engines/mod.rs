pub mod dir;
pub mod fuzzrec;
pub mod hist;
pub mod macrocases;
#[cfg(feature = "likely")]
pub mod likelyeng;
pub mod parse;
pub mod raw;
pub mod rel;
pub mod subtags;
pub mod total;
#[cfg(feature = "hooks")]
pub mod tables;
pub mod universe;

use crate::mon::{Ctx, Fail};

pub struct Engine {
    pub name: &'static str,
    pub prop: &'static str,
    pub run: fn(&mut Ctx),
    /// re-run one recorded byte-string case (replay / known-findings)
    pub replay_bytes: Option<fn(&[u8]) -> Vec<Fail>>,
    /// re-run one recorded structured case
    pub replay_json: Option<fn(&serde_json::Value) -> Vec<Fail>>,
}

fn c09_replay_json(v: &serde_json::Value) -> Vec<Fail> {
    let a = crate::mon::unhex(v["a"]["hex"].as_str().unwrap_or(""));
    let b = crate::mon::unhex(v["b"]["hex"].as_str().unwrap_or(""));
    parse::c09_check_pair(v["label"].as_str().unwrap_or("pair"), &a, &b)
}

pub fn engines() -> Vec<Engine> {
    vec![
        Engine { name: "c01", prop: "C01", run: total::run_c01, replay_bytes: Some(total::c01_replay), replay_json: None },
        Engine { name: "c02", prop: "C02", run: parse::run_c02, replay_bytes: Some(parse::c02_check), replay_json: None },
        Engine { name: "c03", prop: "C03", run: parse::run_c03, replay_bytes: Some(parse::c03_check), replay_json: None },
        Engine { name: "c04", prop: "C04", run: hist::run_c04, replay_bytes: Some(parse::c04_check), replay_json: Some(hist::c04_replay_json) },
        Engine { name: "c05", prop: "C05", run: hist::run_c05, replay_bytes: Some(parse::c05_check), replay_json: Some(hist::c05_replay_json) },
        #[cfg(feature = "likely")]
        Engine { name: "c06", prop: "C06", run: likelyeng::run_c06, replay_bytes: None, replay_json: Some(likelyeng::c06_replay) },
        #[cfg(feature = "likely")]
        Engine { name: "c07", prop: "C07", run: likelyeng::run_c07, replay_bytes: None, replay_json: Some(likelyeng::c07_replay) },
        #[cfg(feature = "likely")]
        Engine { name: "c08", prop: "C08", run: likelyeng::run_c08, replay_bytes: None, replay_json: Some(likelyeng::c08_replay) },
        #[cfg(feature = "hooks")]
        Engine { name: "likely_miri", prop: "C06", run: likelyeng::run_likely_miri, replay_bytes: None, replay_json: Some(likelyeng::c07_replay) },
        Engine { name: "c09", prop: "C09", run: parse::run_c09, replay_bytes: Some(parse::c09_check_masks), replay_json: Some(c09_replay_json) },
        Engine { name: "c10", prop: "C10", run: hist::run_c10, replay_bytes: None, replay_json: Some(hist::c10_replay) },
        Engine { name: "c10_miri", prop: "C10", run: hist::run_c10_miri, replay_bytes: None, replay_json: Some(hist::c10_replay) },
        Engine { name: "c11", prop: "C11", run: rel::run_c11, replay_bytes: None, replay_json: Some(rel::c11_replay) },
        Engine { name: "c12", prop: "C12", run: rel::run_c12, replay_bytes: None, replay_json: Some(rel::c12_replay) },
        Engine { name: "c13", prop: "C13", run: parse::run_c13, replay_bytes: Some(parse::c13_check), replay_json: None },
        Engine { name: "c14", prop: "C14", run: dir::run_c14, replay_bytes: None, replay_json: Some(dir::c14_replay) },
        Engine { name: "c15", prop: "C15", run: subtags::run_c15, replay_bytes: Some(subtags::c15_replay), replay_json: None },
        Engine { name: "c17", prop: "C17", run: raw::run_c17, replay_bytes: None, replay_json: Some(raw::c17_replay) },
        Engine { name: "c19", prop: "C19", run: raw::run_c19, replay_bytes: Some(raw::c19_check_str), replay_json: Some(raw::c19_replay) },
        #[cfg(feature = "hooks")]
        Engine { name: "c18", prop: "C18", run: tables::run_c18, replay_bytes: None, replay_json: None },
    ]
}
