//! Small deterministic PRNG (SplitMix64 seeding xoshiro256**). No external crates.

#[derive(Clone, Debug)]
pub struct Rng {
    s: [u64; 4],
}

pub fn splitmix(x: &mut u64) -> u64 {
    *x = x.wrapping_add(0x9E37_79B9_7F4A_7C15);
    let mut z = *x;
    z = (z ^ (z >> 30)).wrapping_mul(0xBF58_476D_1CE4_E5B9);
    z = (z ^ (z >> 27)).wrapping_mul(0x94D0_49BB_1331_11EB);
    z ^ (z >> 31)
}

/// Mix several integers into one seed (order-sensitive).
pub fn mix(parts: &[u64]) -> u64 {
    let mut h = 0x243F_6A88_85A3_08D3u64;
    for p in parts {
        h ^= *p;
        let mut t = h;
        h = splitmix(&mut t);
    }
    h
}

impl Rng {
    pub fn new(seed: u64) -> Self {
        let mut x = seed;
        let s = [
            splitmix(&mut x),
            splitmix(&mut x),
            splitmix(&mut x),
            splitmix(&mut x),
        ];
        Rng { s }
    }
    pub fn state(&self) -> [u64; 4] {
        self.s
    }
    #[inline]
    pub fn next(&mut self) -> u64 {
        let r = self.s[1].wrapping_mul(5).rotate_left(7).wrapping_mul(9);
        let t = self.s[1] << 17;
        self.s[2] ^= self.s[0];
        self.s[3] ^= self.s[1];
        self.s[1] ^= self.s[2];
        self.s[0] ^= self.s[3];
        self.s[2] ^= t;
        self.s[3] = self.s[3].rotate_left(45);
        r
    }
    /// uniform in 0..n (n > 0)
    #[inline]
    pub fn below(&mut self, n: usize) -> usize {
        ((self.next() >> 11) % (n as u64)) as usize
    }
    #[inline]
    pub fn chance(&mut self, num: u32, den: u32) -> bool {
        (self.next() >> 11) % (den as u64) < num as u64
    }
    pub fn pick<'a, T>(&mut self, xs: &'a [T]) -> &'a T {
        &xs[self.below(xs.len())]
    }
    pub fn shuffle<T>(&mut self, xs: &mut [T]) {
        for i in (1..xs.len()).rev() {
            let j = self.below(i + 1);
            xs.swap(i, j);
        }
    }
}
