//! Parser-side monitors: C02 (langid grammar), C03 (locale zones), C13 (superset).
//! The per-input checkers are plain functions so that the shrinker and `replay` reuse them.

use crate::gen;
use crate::mon::{self, fail, guard, Ctx, Fail};
use crate::obs::{obs_li, obs_loc, order_facts, repr_facts, repr_facts_li};
use crate::refspec::{self, classify_langid, classify_locale, LiVerdict, Zone};
use crate::rng::{mix, Rng};
use crate::stream::{byte_stream, StreamCfg};
use serde_json::json;
use unic_langid_impl::parser::ParserError as LiParserError;
use unic_langid_impl::{LanguageIdentifier, LanguageIdentifierError};
use unic_locale_impl::{ExtensionsMap, Locale};

fn lossy(b: &[u8]) -> String {
    String::from_utf8_lossy(b).into_owned()
}

// ------------------------------------------------------------------ C02

pub fn c02_check(input: &[u8]) -> Vec<Fail> {
    let mut out = vec![];
    let v = classify_langid(input);
    let r = guard(|| LanguageIdentifier::from_bytes(input));
    match (&v, &r) {
        (_, Err(p)) => out.push(fail("panic", format!("from_bytes panicked: {}", p))),
        (LiVerdict::Accept(e), Ok(Ok(li))) => {
            let o = obs_li(li);
            if o != *e {
                out.push(fail("accept-value", format!("expected {:?}, observed {:?}", e, o)));
            }
            let s = li.to_string();
            if s != e.canon() {
                out.push(fail("accept-string", format!("expected {:?}, to_string() = {:?}", e.canon(), s)));
            }
            for f in repr_facts_li(li) {
                out.push(fail("accept-representation", format!("{} (parsed {:?})", f, li)));
            }
        }
        (LiVerdict::Accept(e), Ok(Err(err))) => out.push(fail(
            "must-accept-rejected",
            format!("well-formed language identifier (= {}) rejected with {:?}", e.canon(), err),
        )),
        (LiVerdict::RejectLanguage, Ok(Err(err))) => {
            if *err != LanguageIdentifierError::ParserError(LiParserError::InvalidLanguage) {
                out.push(fail("error-kind", format!("first subtag is not a language: expected InvalidLanguage, got {:?}", err)));
            }
        }
        (LiVerdict::RejectSubtag, Ok(Err(err))) => {
            if *err != LanguageIdentifierError::ParserError(LiParserError::InvalidSubtag) {
                out.push(fail("error-kind", format!("first subtag is a language: expected InvalidSubtag, got {:?}", err)));
            }
        }
        (_, Ok(Ok(li))) => out.push(fail(
            "must-reject-accepted",
            format!("ill-formed ({}) but parsed to {:?}", v.name(), li.to_string()),
        )),
    }
    // the other entry points must agree with from_bytes
    if let Ok(base) = &r {
        match guard(|| unic_langid_impl::parser::parse_language_identifier(input)) {
            Err(p) => out.push(fail("panic", format!("parse_language_identifier panicked: {}", p))),
            Ok(x) => {
                let same = match (base, &x) {
                    (Ok(a), Ok(b)) => a == b,
                    (Err(LanguageIdentifierError::ParserError(a)), Err(b)) => a == b,
                    _ => false,
                };
                if !same {
                    out.push(fail("entry-points-disagree", format!("from_bytes = {:?}, parse_language_identifier = {:?}", base, x)));
                }
            }
        }
        match guard(|| unic_langid_impl::canonicalize(input)) {
            Err(p) => out.push(fail("panic", format!("canonicalize panicked: {}", p))),
            Ok(x) => {
                let same = match (base, &x) {
                    (Ok(a), Ok(s)) => a.to_string() == *s,
                    (Err(a), Err(b)) => a == b,
                    _ => false,
                };
                if !same {
                    out.push(fail("entry-points-disagree", format!("from_bytes = {:?}, canonicalize = {:?}", base, x)));
                }
            }
        }
        if let Ok(s) = std::str::from_utf8(input) {
            match guard(|| s.parse::<LanguageIdentifier>()) {
                Err(p) => out.push(fail("panic", format!("from_str panicked: {}", p))),
                Ok(x) => {
                    if x != *base {
                        out.push(fail("entry-points-disagree", format!("from_bytes = {:?}, from_str = {:?}", base, x)));
                    }
                }
            }
        }
    }
    out
}

pub fn run_c02(ctx: &mut Ctx) {
    let cfg = StreamCfg::standard(ctx.quick());
    ctx.extra.insert("workload".into(), json!(cfg.describe()));
    byte_stream(ctx, &cfg, &mut |ctx, b, src| {
        ctx.evals += 1;
        ctx.count(src.name());
        let v = classify_langid(b);
        let vn = v.name();
        ctx.count(vn);
        if refspec::n_subtags(b) >= 2 {
            ctx.sig(refspec::class_seq_hash(2, b, match v { LiVerdict::Accept(_) => 1, LiVerdict::RejectLanguage => 2, LiVerdict::RejectSubtag => 3 }));
        }
        if ctx.wants_sample(vn) && refspec::n_subtags(b) >= 2 {
            ctx.sample(vn, || json!({"input": lossy(b), "oracle": vn}));
        }
        ctx.judge_bytes(b, &mut |c| c02_check(c));
    });
}

// ------------------------------------------------------------------ C03

pub fn c03_check(input: &[u8]) -> Vec<Fail> {
    let mut out = vec![];
    let z = classify_locale(input);
    let r = guard(|| Locale::from_bytes(input));
    mon::note_outcome(mon::outcome_code(&r));
    match (&z, &r) {
        (Zone::MustReject(why), Err(p)) => out.push(fail("must-reject-panicked", format!("ill-formed ({}) must return an error, but panicked: {}", why, p))),
        (_, Err(p)) => out.push(fail("panic", format!("Locale::from_bytes panicked: {}", p))),
        (Zone::MustAccept(e), Ok(Ok(l))) => {
            let o = obs_loc(l);
            if o != *e {
                out.push(fail("accept-value", format!("expected {:?}, observed {:?}", e, o)));
            } else {
                let s = l.to_string();
                if s != e.canon() {
                    out.push(fail("accept-string", format!("expected {:?}, to_string() = {:?}", e.canon(), s)));
                }
            }
            for b in order_facts(l) {
                out.push(fail("accept-order", b));
            }
            for b in repr_facts(l) {
                out.push(fail("accept-representation", format!("{} (parsed {:?})", b, l)));
            }
        }
        (Zone::MustAccept(e), Ok(Err(err))) => out.push(fail(
            "must-accept-rejected",
            format!("well-formed locale (= {}) rejected with {:?}", e.canon(), err),
        )),
        (Zone::MustReject(why), Ok(Ok(l))) => out.push(fail(
            "must-reject-accepted",
            format!("ill-formed ({}) but parsed to {:?}", why, l.to_string()),
        )),
        (Zone::MustReject(_), Ok(Err(_))) => {}
        (Zone::Either(e, why), Ok(Ok(l))) => {
            let o = obs_loc(l);
            if o != *e {
                out.push(fail("either-value", format!("latitude ({}): accepted, but value {:?} differs from the input with the emptiness removed {:?}", why, o, e)));
            }
        }
        (Zone::Either(..), Ok(Err(_))) => {}
        (Zone::EitherAny(_), _) | (Zone::Outside(_), _) => {}
    }
    if let Ok(base) = &r {
        match guard(|| unic_locale_impl::parser::parse_locale(input)) {
            Err(p) => out.push(fail("panic", format!("parse_locale panicked: {}", p))),
            Ok(x) => {
                let same = match (base, &x) {
                    (Ok(a), Ok(b)) => a == b,
                    (Err(_), Err(_)) => true,
                    _ => false,
                };
                if !same {
                    out.push(fail("entry-points-disagree", format!("from_bytes = {:?}, parse_locale = {:?}", base, x)));
                }
            }
        }
        if let Ok(s) = std::str::from_utf8(input) {
            match guard(|| s.parse::<Locale>()) {
                Err(p) => out.push(fail("panic", format!("from_str panicked: {}", p))),
                Ok(x) => {
                    let same = match (base, &x) {
                        (Ok(a), Ok(b)) => a == b,
                        (Err(_), Err(_)) => true,
                        _ => false,
                    };
                    if !same {
                        out.push(fail("entry-points-disagree", format!("from_bytes = {:?}, from_str = {:?}", base, x)));
                    }
                }
            }
        }
    }
    out
}

fn outcome_name<T, E>(r: &Result<Result<T, E>, String>) -> &'static str {
    match r {
        Ok(Ok(_)) => "ok",
        Ok(Err(_)) => "err",
        Err(_) => "panic",
    }
}

pub fn run_c03(ctx: &mut Ctx) {
    let cfg = StreamCfg::standard(ctx.quick());
    ctx.extra.insert("workload".into(), json!(cfg.describe()));
    byte_stream(ctx, &cfg, &mut |ctx, b, src| {
        ctx.evals += 1;
        ctx.count(src.name());
        let z = classify_locale(b);
        // the judged call comes first: it must be the first library call on this input, otherwise a
        // statistics-only parse would absorb state left behind by the previous input
        ctx.judge_bytes(b, &mut |c| c03_check(c));
        let lib = mon::outcome_str(mon::take_outcome());
        let key: &'static str = match (z.name(), lib) {
            ("must_accept", "ok") => "zone:must_accept/ok",
            ("must_accept", "err") => "zone:must_accept/err",
            ("must_reject", "ok") => "zone:must_reject/ok",
            ("must_reject", "err") => "zone:must_reject/err",
            ("either", "ok") => "zone:either/ok",
            ("either", "err") => "zone:either/err",
            ("either_any", "ok") => "zone:either_any/ok",
            ("either_any", "err") => "zone:either_any/err",
            ("outside", "ok") => "zone:outside/ok",
            ("outside", "err") => "zone:outside/err",
            _ => "zone:*/panic",
        };
        ctx.count(key);
        let has_ext_part = match &z {
            Zone::MustAccept(l) | Zone::Either(l, _) => l.has_ext() || matches!(z, Zone::Either(..)),
            _ => refspec::n_subtags(b) >= 2,
        };
        if has_ext_part {
            let mut h = mon::SigH::new(3);
            h.b(key.as_bytes()).b(z.reason().as_bytes());
            ctx.sig(refspec::class_seq_hash(h.fin(), b, 0));
        }
        let cat = format!("{}:{}", z.name(), z.reason());
        if ctx.wants_sample(&cat) && refspec::n_subtags(b) >= 2 {
            ctx.sample(&cat, || json!({"input": lossy(b), "zone": z.name(), "reason": z.reason(), "library": lib}));
        }
    });
    // G-struct with by-construction expectations (guards the oracle as well as the library)
    let n = if ctx.quick() { 200_000u64 } else { 10_000_000 } / ctx.nshards as u64;
    let mut r = Rng::new(mix(&[ctx.seed, ctx.shard as u64, 0xC03]));
    for _ in 0..n {
        ctx.rng_state = Some(r.state());
        let sl = gen::gen_sloc(&mut r, false, true);
        let b = gen::render_random(&sl.tokens(), &mut r);
        mon::begin_case(&b);
        ctx.evals += 1;
        ctx.count("g_struct_by_construction");
        let exp = sl.expected();
        match classify_locale(&b) {
            Zone::MustAccept(e) if e == exp => {}
            z => {
                // the two independent oracles disagree: harness defect, never a library violation
                ctx.notes.push(format!("ORACLE-DISAGREEMENT input={:?} construction={:?} recogniser={:?}", lossy(&b), exp, z));
                ctx.count("oracle_disagreement");
                continue;
            }
        }
        ctx.judge_bytes(&b, &mut |c| c03_check(c));
    }
    ctx.rng_state = None;
    mon::idle();
}

// ------------------------------------------------------------------ C13

pub fn c13_check(input: &[u8]) -> Vec<Fail> {
    let mut out = vec![];
    // the order of the two calls alternates with the input (a differential check must not always let the
    // second parser run directly after the first on the same bytes: state the first leaves behind would then
    // always be absorbed by the same, forgiving, call)
    let (li, lo);
    if input.iter().fold(input.len(), |a, b| a.wrapping_mul(31).wrapping_add(*b as usize)) % 2 == 0 {
        li = guard(|| LanguageIdentifier::from_bytes(input));
        lo = guard(|| Locale::from_bytes(input));
    } else {
        lo = guard(|| Locale::from_bytes(input));
        li = guard(|| LanguageIdentifier::from_bytes(input));
    }
    mon::note_outcome(mon::outcome_code(&li) | (mon::outcome_code(&lo) << 2));
    if let Err(p) = &li {
        out.push(fail("panic", format!("LanguageIdentifier::from_bytes panicked: {}", p)));
    }
    if let Err(p) = &lo {
        out.push(fail("panic", format!("Locale::from_bytes panicked: {}", p)));
    }
    let (Ok(li), Ok(lo)) = (li, lo) else { return out };
    if let Ok(li) = &li {
        match &lo {
            Err(e) => out.push(fail("langid-ok-locale-err", format!("LanguageIdentifier accepts ({}), Locale rejects with {:?}", li, e))),
            Ok(loc) => {
                if loc.id != *li {
                    out.push(fail("id-differs", format!("LanguageIdentifier = {}, Locale.id = {}", li, loc.id)));
                }
                if !loc.extensions.is_empty() || loc.extensions != ExtensionsMap::default() {
                    out.push(fail("spurious-extensions", format!("Locale has extensions {:?}", loc.extensions.to_string())));
                }
                if loc.to_string() != li.to_string() {
                    out.push(fail("string-differs", format!("{} vs {}", loc, li)));
                }
            }
        }
    }
    // the same comparison through the FromStr entry points (the two crates implement them separately)
    if let Ok(text) = std::str::from_utf8(input) {
        let sli = guard(|| text.parse::<LanguageIdentifier>());
        let slo = guard(|| text.parse::<Locale>());
        match (&sli, &slo) {
            (Err(p), _) | (_, Err(p)) => out.push(fail("panic", format!("FromStr panicked: {}", p))),
            (Ok(Ok(a)), Ok(Err(e))) => out.push(fail("langid-ok-locale-err", format!("[FromStr] LanguageIdentifier accepts ({}), Locale rejects with {:?}", a, e))),
            (Ok(Ok(a)), Ok(Ok(b))) => {
                if b.id != *a || !b.extensions.is_empty() || b.to_string() != a.to_string() {
                    out.push(fail("id-differs", format!("[FromStr] LanguageIdentifier = {}, Locale = {}", a, b)));
                }
            }
            _ => {}
        }
        // and each type's FromStr must agree with its own from_bytes on the same text
        if let Ok(a) = &sli {
            if a.is_ok() != li.is_ok() || (a.is_ok() && a.as_ref().ok() != li.as_ref().ok()) {
                out.push(fail("fromstr-vs-from_bytes", format!("LanguageIdentifier: FromStr = {:?}, from_bytes = {:?}", a.as_ref().map(|x| x.to_string()).map_err(|_| "Err"), li.as_ref().map(|x| x.to_string()).map_err(|_| "Err"))));
            }
        }
        if let Ok(a) = &slo {
            if a.is_ok() != lo.is_ok() || (a.is_ok() && a.as_ref().ok() != lo.as_ref().ok()) {
                out.push(fail("fromstr-vs-from_bytes", format!("Locale: FromStr = {:?}, from_bytes = {:?}", a.as_ref().map(|x| x.to_string()).map_err(|_| "Err"), lo.as_ref().map(|x| x.to_string()).map_err(|_| "Err"))));
            }
        }
    }
    if let Err(e) = &lo {
        // "for every well-formed locale string the id equals ...": a well-formed locale string that Locale rejects has
        // no id at all, so the clause fails for it (judged only in the oracle's must-accept zone)
        if matches!(classify_locale(input), Zone::MustAccept(_)) {
            out.push(fail("well-formed-locale-has-no-id", format!("well-formed locale string rejected with {:?}: there is no id to equal the language identifier of its prefix", e)));
        }
    }
    if let Ok(loc) = &lo {
        // id == LanguageIdentifier parsed from the part before the first singleton subtag
        let toks = refspec::split(input);
        let cut = toks.iter().position(|t| t.len() == 1);
        let prefix_len = match cut {
            None => input.len(),
            Some(k) => toks[..k].iter().map(|t| t.len() + 1).sum::<usize>().saturating_sub(1),
        };
        // only judged for well-formed locale strings (statement: "for every well-formed locale string")
        let wf = matches!(classify_locale(input), Zone::MustAccept(_));
        if wf {
            match guard(|| LanguageIdentifier::from_bytes(&input[..prefix_len])) {
                Ok(Ok(p)) => {
                    if p != loc.id {
                        out.push(fail("prefix-id-differs", format!("prefix parses to {}, Locale.id = {}", p, loc.id)));
                    }
                }
                Ok(Err(e)) => out.push(fail("prefix-rejected", format!("Locale accepted, but its language-id prefix {:?} is rejected: {:?}", lossy(&input[..prefix_len]), e))),
                Err(p) => out.push(fail("panic", p)),
            }
        }
        // conversions
        let id2: LanguageIdentifier = loc.clone().into();
        if id2 != loc.id {
            out.push(fail("into-langid", format!("{} vs {}", id2, loc.id)));
        }
        let back: Locale = id2.clone().into();
        if back.id != loc.id || !back.extensions.is_empty() {
            out.push(fail("from-langid", format!("{:?}", back.to_string())));
        }
        let full = loc.to_string();
        let ext = loc.extensions.to_string();
        if !full.ends_with(&ext) || back.to_string() != full[..full.len() - ext.len()] {
            out.push(fail("drops-exactly-extensions", format!("{:?} minus {:?} != {:?}", full, ext, back.to_string())));
        }
        let rt: LanguageIdentifier = Locale::from(id2.clone()).into();
        if rt != id2 {
            out.push(fail("langid-locale-langid", format!("{} vs {}", rt, id2)));
        }
        let asr: &LanguageIdentifier = loc.as_ref();
        if *asr != loc.id {
            out.push(fail("as-ref", "AsRef<LanguageIdentifier> differs from id"));
        }
    }
    out
}

pub fn run_c13(ctx: &mut Ctx) {
    let cfg = StreamCfg::standard(ctx.quick());
    ctx.extra.insert("workload".into(), json!(cfg.describe()));
    byte_stream(ctx, &cfg, &mut |ctx, b, src| {
        ctx.evals += 1;
        ctx.count(src.name());
        // the judged call comes first: it must be the first library call on this input, otherwise a
        // statistics-only parse would absorb state left behind by the previous input
        ctx.judge_bytes(b, &mut |c| c13_check(c));
        let oc = mon::take_outcome();
        let key: &'static str = match (mon::outcome_str(oc), mon::outcome_str(oc >> 2)) {
            ("ok", "ok") => "langid_ok/locale_ok",
            ("ok", "err") => "langid_ok/locale_err",
            ("err", "ok") => "langid_err/locale_ok",
            ("err", "err") => "langid_err/locale_err",
            _ => "panic",
        };
        ctx.count(key);
        if refspec::n_subtags(b) >= 2 {
            ctx.sig(refspec::class_seq_hash(13, b, mon::SigH::new(0).b(key.as_bytes()).fin()));
        }
        if ctx.wants_sample(key) && refspec::n_subtags(b) >= 2 {
            ctx.sample(key, || json!({"input": lossy(b), "outcomes": key}));
        }
    });
}

// ------------------------------------------------------------------ C04 (parsed values)

/// Facts every serialised identifier must satisfy, given the value observed through the getters.
pub fn c04_string_facts(what: &str, s: &str, observed_canon: &str, facts: &[&'static str]) -> Vec<Fail> {
    let mut out = vec![];
    if !s.bytes().all(|c| c.is_ascii_alphanumeric() || c == b'-') {
        out.push(fail("alphabet", format!("{} to_string() = {:?} contains bytes outside [A-Za-z0-9-]", what, s)));
    }
    if s.split('-').any(|t| t.is_empty()) {
        out.push(fail("empty-subtag", format!("{} to_string() = {:?} has an empty subtag", what, s)));
    }
    // a library that supports well-formed other extensions (C03 allows it) prints them somewhere in front of
    // -x-; the statement fixes the form of everything else, so they are taken out before the comparison
    let stripped;
    let s: &str = match refspec::strip_other_extensions(s) {
        Some((rest, n)) if n > 0 => {
            stripped = rest;
            &stripped
        }
        Some(_) => s,
        None => {
            out.push(fail("not-well-formed", format!("{} to_string() = {:?} contains an extension singleton other than t/u/x whose body is not a well-formed other extension", what, s)));
            s
        }
    };
    if s != observed_canon {
        out.push(fail("canonical-form", format!("{} to_string() = {:?}, independent canonicaliser over the getters gives {:?}", what, s, observed_canon)));
    }
    for f in facts {
        out.push(fail("sorted-unique", format!("{}: {}", what, f)));
    }
    // the output must be a fixed point of the independent recogniser + canonicaliser
    match refspec::classify_locale_full(s.as_bytes()) {
        (Zone::MustAccept(v), _) => {
            if v.canon() != s {
                out.push(fail("not-canonical", format!("{} to_string() = {:?} re-canonicalises to {:?} (case / order / 'true' / duplicates)", what, s, v.canon())));
            }
        }
        (Zone::Either(v, _), reasons) if reasons.iter().all(|r| *r == refspec::R_TFIELD_NOVALUE) => {
            if v.canon() != s {
                out.push(fail("not-canonical", format!("{} to_string() = {:?} re-canonicalises to {:?}", what, s, v.canon())));
            }
        }
        (z, _) => out.push(fail("not-well-formed", format!("{} to_string() = {:?} is not a well-formed identifier: {} ({})", what, s, z.name(), z.reason()))),
    }
    out
}

pub fn c04_check_locale_value(what: &str, l: &Locale) -> Vec<Fail> {
    let s = match guard(|| l.to_string()) {
        Ok(s) => s,
        Err(p) => return vec![fail("panic", format!("to_string panicked: {}", p))],
    };
    let o = obs_loc(l);
    c04_string_facts(what, &s, &o.canon(), &order_facts(l))
}

pub fn c04_check_langid_value(what: &str, li: &LanguageIdentifier) -> Vec<Fail> {
    let s = match guard(|| li.to_string()) {
        Ok(s) => s,
        Err(p) => return vec![fail("panic", format!("to_string panicked: {}", p))],
    };
    let o = obs_li(li);
    let mut facts = vec![];
    if !crate::obs::strictly_ascending(li.variants().map(|v| v.as_str())) {
        facts.push("variants not strictly ascending");
    }
    let mut out = c04_string_facts(what, &s, &o.canon(), &facts);
    if !matches!(classify_langid(s.as_bytes()), LiVerdict::Accept(_)) {
        out.push(fail("not-well-formed", format!("{} to_string() = {:?} is not a well-formed language identifier", what, s)));
    }
    out
}

pub fn c04_check(input: &[u8]) -> Vec<Fail> {
    let mut out = vec![];
    match guard(|| Locale::from_bytes(input)) {
        Err(_) => {}
        Ok(Err(_)) => {
            if let Ok(Ok(s)) = guard(|| unic_locale_impl::canonicalize(input)) {
                out.push(fail("canonicalize-differs", format!("Locale::from_bytes fails but canonicalize returns {:?}", s)));
            }
        }
        Ok(Ok(l)) => {
            out.extend(c04_check_locale_value("Locale", &l));
            let s = l.to_string();
            mon::note_text(s.clone());
            match guard(|| unic_locale_impl::canonicalize(input)) {
                Ok(Ok(c)) => {
                    if c != s {
                        out.push(fail("canonicalize-differs", format!("canonicalize = {:?}, parse().to_string() = {:?}", c, s)));
                    }
                    if c.len() > input.len() {
                        out.push(fail("canonicalize-longer", format!("canonicalize output {:?} ({} bytes) is longer than the input ({} bytes)", c, c.len(), input.len())));
                    }
                }
                Ok(Err(e)) => out.push(fail("canonicalize-differs", format!("parse succeeds but canonicalize fails: {:?}", e))),
                Err(p) => out.push(fail("panic", p)),
            }
        }
    }
    match guard(|| LanguageIdentifier::from_bytes(input)) {
        Err(_) => {}
        Ok(Err(_)) => {
            if let Ok(Ok(s)) = guard(|| unic_langid_impl::canonicalize(input)) {
                out.push(fail("canonicalize-differs", format!("LanguageIdentifier::from_bytes fails but canonicalize returns {:?}", s)));
            }
        }
        Ok(Ok(li)) => {
            out.extend(c04_check_langid_value("LanguageIdentifier", &li));
            let s = li.to_string();
            match guard(|| unic_langid_impl::canonicalize(input)) {
                Ok(Ok(c)) => {
                    if c != s {
                        out.push(fail("canonicalize-differs", format!("langid canonicalize = {:?}, parse().to_string() = {:?}", c, s)));
                    }
                    if c.len() > input.len() {
                        out.push(fail("canonicalize-longer", format!("{:?} longer than input", c)));
                    }
                }
                Ok(Err(e)) => out.push(fail("canonicalize-differs", format!("parse succeeds but canonicalize fails: {:?}", e))),
                Err(p) => out.push(fail("panic", p)),
            }
        }
    }
    out
}

// ------------------------------------------------------------------ C05 (parsed values)

pub fn c05_check_locale_value(what: &str, l: &Locale) -> Vec<Fail> {
    let mut out = vec![];
    let s = l.to_string();
    crate::stream::hostile_neighbour(s.as_bytes());
    match guard(|| s.parse::<Locale>()) {
        Err(p) => out.push(fail("panic", p)),
        Ok(Err(e)) => out.push(fail("locale-reparse-rejected", format!("{}: to_string() = {:?} does not parse back: {:?}", what, s, e))),
        Ok(Ok(l2)) => {
            if l2 != *l {
                out.push(fail("locale-reparse-differs", format!("{}: {:?} parses back to a different value {:?} vs {:?}", what, s, l2, l)));
            } else if l2.to_string() != s {
                out.push(fail("locale-reparse-differs", format!("{}: {:?} re-serialises as {:?}", what, s, l2.to_string())));
            }
        }
    }
    let es = l.extensions.to_string();
    match guard(|| es.parse::<ExtensionsMap>()) {
        Err(p) => out.push(fail("panic", p)),
        Ok(Err(e)) => out.push(fail("extensions-reparse-rejected", format!("{}: extensions.to_string() = {:?} does not parse back: {:?}", what, es, e))),
        Ok(Ok(e2)) => {
            if e2 != l.extensions {
                out.push(fail("extensions-reparse-differs", format!("{}: {:?} parses back to {:?}", what, es, e2.to_string())));
            }
        }
    }
    out.extend(c05_check_langid_value(what, &l.id));
    if let Some(t) = l.extensions.transform.tlang() {
        out.extend(c05_check_langid_value("tlang", t));
    }
    out
}

pub fn c05_check_langid_value(what: &str, li: &LanguageIdentifier) -> Vec<Fail> {
    use unic_langid_impl::subtags::{Language, Region, Script, Variant};
    let mut out = vec![];
    let s = li.to_string();
    crate::stream::hostile_neighbour(s.as_bytes());
    match guard(|| s.parse::<LanguageIdentifier>()) {
        Err(p) => out.push(fail("panic", p)),
        Ok(Err(e)) => out.push(fail("langid-reparse-rejected", format!("{}: to_string() = {:?} does not parse back: {:?}", what, s, e))),
        Ok(Ok(l2)) => {
            if l2 != *li {
                out.push(fail("langid-reparse-differs", format!("{}: {:?} parses back to {:?}", what, s, l2)));
            }
        }
    }
    if li.language.to_string().parse::<Language>() != Ok(li.language) {
        out.push(fail("subtag-reparse", format!("language {:?}", li.language.to_string())));
    }
    if let Some(x) = li.script {
        if x.to_string().parse::<Script>() != Ok(x) {
            out.push(fail("subtag-reparse", format!("script {:?}", x.to_string())));
        }
    }
    if let Some(x) = li.region {
        if x.to_string().parse::<Region>() != Ok(x) {
            out.push(fail("subtag-reparse", format!("region {:?}", x.to_string())));
        }
    }
    for v in li.variants() {
        if v.to_string().parse::<Variant>() != Ok(*v) {
            out.push(fail("subtag-reparse", format!("variant {:?}", v.to_string())));
        }
    }
    out
}

pub fn c05_check(input: &[u8]) -> Vec<Fail> {
    let mut out = vec![];
    if let Ok(Ok(l)) = guard(|| Locale::from_bytes(input)) {
        mon::note_text(l.to_string());
        out.extend(c05_check_locale_value("parsed Locale", &l));
        // canonicalize idempotent
        if let Ok(Ok(c1)) = guard(|| unic_locale_impl::canonicalize(input)) {
            match guard(|| unic_locale_impl::canonicalize(&c1)) {
                Ok(Ok(c2)) if c2 == c1 => {}
                x => out.push(fail("canonicalize-not-idempotent", format!("canonicalize({:?}) = {:?}", c1, x))),
            }
        }
    }
    if let Ok(Ok(li)) = guard(|| LanguageIdentifier::from_bytes(input)) {
        out.extend(c05_check_langid_value("parsed LanguageIdentifier", &li));
        if let Ok(Ok(c1)) = guard(|| unic_langid_impl::canonicalize(input)) {
            match guard(|| unic_langid_impl::canonicalize(&c1)) {
                Ok(Ok(c2)) if c2 == c1 => {}
                x => out.push(fail("canonicalize-not-idempotent", format!("langid canonicalize({:?}) = {:?}", c1, x))),
            }
        }
    }
    // the extension part on its own
    if let Ok(Ok(e)) = guard(|| ExtensionsMap::from_bytes(input)) {
        let s = e.to_string();
        match guard(|| s.parse::<ExtensionsMap>()) {
            Ok(Ok(e2)) if e2 == e => {}
            x => out.push(fail("extensions-reparse-differs", format!("ExtensionsMap {:?} -> {:?}", s, x.map(|r| r.map(|m| m.to_string()))))),
        }
    }
    out
}

// ------------------------------------------------------------------ C09 (metamorphic)

fn cmp_pair(a: &[u8], b: &[u8], what: &str) -> Vec<Fail> {
    let mut out = vec![];
    let (ra, rb) = (guard(|| Locale::from_bytes(a)), guard(|| Locale::from_bytes(b)));
    mon::note_outcome(mon::outcome_code(&ra));
    match (&ra, &rb) {
        (Err(p), _) | (_, Err(p)) => out.push(fail(format!("{}:panic", what), p.clone())),
        (Ok(Ok(x)), Ok(Ok(y))) => {
            if x != y {
                out.push(fail(format!("{}:locale-values-differ", what), format!("{:?} -> {}, {:?} -> {}", lossy(a), x, lossy(b), y)));
            } else if x.to_string() != y.to_string() {
                out.push(fail(format!("{}:locale-strings-differ", what), format!("{} vs {}", x, y)));
            }
        }
        (Ok(Err(_)), Ok(Err(_))) => {}
        (Ok(x), Ok(y)) => out.push(fail(
            format!("{}:locale-one-fails", what),
            format!("{:?} -> {:?}, {:?} -> {:?}", lossy(a), x.as_ref().map(|l| l.to_string()), lossy(b), y.as_ref().map(|l| l.to_string())),
        )),
    }
    let (ra, rb) = (guard(|| LanguageIdentifier::from_bytes(a)), guard(|| LanguageIdentifier::from_bytes(b)));
    match (&ra, &rb) {
        (Err(p), _) | (_, Err(p)) => out.push(fail(format!("{}:panic", what), p.clone())),
        (Ok(Ok(x)), Ok(Ok(y))) => {
            if x != y || x.to_string() != y.to_string() {
                out.push(fail(format!("{}:langid-values-differ", what), format!("{:?} -> {}, {:?} -> {}", lossy(a), x, lossy(b), y)));
            }
        }
        (Ok(Err(_)), Ok(Err(_))) => {}
        (Ok(x), Ok(y)) => out.push(fail(
            format!("{}:langid-one-fails", what),
            format!("{:?} -> {:?}, {:?} -> {:?}", lossy(a), x.as_ref().map(|l| l.to_string()), lossy(b), y.as_ref().map(|l| l.to_string())),
        )),
    }
    out
}

/// Deterministic byte-level transformations applicable to ANY input (mode picks one).
pub fn c09_mask(input: &[u8], mode: u8) -> Vec<u8> {
    let mut v = input.to_vec();
    for (i, b) in v.iter_mut().enumerate() {
        match mode % 6 {
            0 => *b = b.to_ascii_uppercase(),
            1 => *b = b.to_ascii_lowercase(),
            2 => {
                if *b == b'-' {
                    *b = b'_'
                }
            }
            3 => {
                if i % 2 == 0 {
                    *b = b.to_ascii_uppercase()
                } else {
                    *b = b.to_ascii_lowercase()
                }
            }
            4 => {
                // alternate separators, flip case of every third byte
                if *b == b'-' && i % 2 == 1 {
                    *b = b'_'
                } else if *b == b'_' && i % 2 == 0 {
                    *b = b'-'
                } else if i % 3 == 0 {
                    *b = if b.is_ascii_uppercase() { b.to_ascii_lowercase() } else { b.to_ascii_uppercase() }
                }
            }
            _ => {
                if *b == b'_' {
                    *b = b'-'
                } else if b.is_ascii_alphabetic() {
                    *b ^= 0x20
                }
            }
        }
    }
    v
}

/// Replay/shrink form: first byte = mask mode, rest = input.
pub fn c09_check_masks(tagged: &[u8]) -> Vec<Fail> {
    if tagged.is_empty() {
        return vec![];
    }
    let (mode, input) = (tagged[0], &tagged[1..]);
    let b = c09_mask(input, mode);
    if b == input {
        return vec![];
    }
    cmp_pair(input, &b, "case-separator")
}

fn tok_bytes(t: &[String]) -> Vec<u8> {
    t.join("-").into_bytes()
}

/// Structure-aware transformations of one generated locale. Returns (label, a, b) pairs.
pub fn c09_struct_pairs(sl: &gen::SLoc, r: &mut Rng) -> Vec<(&'static str, Vec<u8>, Vec<u8>)> {
    let mut pairs = vec![];
    let base = sl.tokens();
    let a = tok_bytes(&base);
    // random case + separator masks
    pairs.push(("case-separator", a.clone(), gen::render_random(&base, r)));
    // variants permuted / duplicated
    if sl.id.variants.len() >= 1 {
        let mut s2 = sl.clone();
        r.shuffle(&mut s2.id.variants);
        if r.chance(1, 2) {
            let d = r.pick(&s2.id.variants).clone();
            let at = r.below(s2.id.variants.len() + 1);
            s2.id.variants.insert(at, d);
        }
        if r.chance(1, 4) {
            // heavy repetition: the list grows well beyond any "small list" fast path
            for _ in 0..2 + r.below(9) {
                let d = r.pick(&s2.id.variants).clone();
                let at = r.below(s2.id.variants.len() + 1);
                s2.id.variants.insert(at, d);
            }
        }
        pairs.push(("variant-order", a.clone(), tok_bytes(&s2.tokens())));
    }
    if let Some((attrs, kws)) = &sl.u {
        if !attrs.is_empty() {
            let mut s2 = sl.clone();
            let u2 = s2.u.as_mut().unwrap();
            r.shuffle(&mut u2.0);
            if r.chance(1, 2) {
                let d = r.pick(&u2.0).clone();
                let at = r.below(u2.0.len() + 1);
                u2.0.insert(at, d);
            }
            if r.chance(1, 4) {
                for _ in 0..2 + r.below(9) {
                    let d = r.pick(&u2.0).clone();
                    let at = r.below(u2.0.len() + 1);
                    u2.0.insert(at, d);
                }
            }
            pairs.push(("attribute-order", a.clone(), tok_bytes(&s2.tokens())));
        }
        if kws.len() >= 2 {
            let mut s2 = sl.clone();
            r.shuffle(&mut s2.u.as_mut().unwrap().1);
            pairs.push(("keyword-order", a.clone(), tok_bytes(&s2.tokens())));
        }
    }
    if let Some((tl, fs)) = &sl.t {
        if fs.len() >= 2 {
            let mut s2 = sl.clone();
            r.shuffle(&mut s2.t.as_mut().unwrap().1);
            pairs.push(("tfield-order", a.clone(), tok_bytes(&s2.tokens())));
        }
        if let Some(tl) = tl {
            if !tl.variants.is_empty() {
                let mut s2 = sl.clone();
                let t2 = s2.t.as_mut().unwrap().0.as_mut().unwrap();
                r.shuffle(&mut t2.variants);
                let d = r.pick(&t2.variants).clone();
                t2.variants.push(d);
                if r.chance(1, 4) {
                    for _ in 0..2 + r.below(9) {
                        let d = r.pick(&t2.variants).clone();
                        let at = r.below(t2.variants.len() + 1);
                        t2.variants.insert(at, d);
                    }
                }
                pairs.push(("tlang-variant-order", a.clone(), tok_bytes(&s2.tokens())));
            }
        }
    }
    if sl.u.is_some() && sl.t.is_some() {
        let mut s2 = sl.clone();
        s2.u_first = !s2.u_first;
        pairs.push(("u-t-order", a.clone(), tok_bytes(&s2.tokens())));
    }
    // the "both fail" side: inject the same fault outside the permuted group into both members
    let n = pairs.len();
    for i in 0..n {
        if r.chance(1, 3) {
            let (label, x, y) = pairs[i].clone();
            let fault = r.below(3);
            let inj = |v: &Vec<u8>| -> Vec<u8> {
                match fault {
                    0 => {
                        let mut o = b"e1-".to_vec();
                        o.extend_from_slice(v);
                        o
                    }
                    1 => {
                        let mut o = v.clone();
                        o.extend_from_slice(b"-toolongsubtag");
                        o
                    }
                    _ => {
                        let mut o = b"toolonglanguage-".to_vec();
                        o.extend_from_slice(v);
                        o
                    }
                }
            };
            let lab: &'static str = match label {
                "case-separator" => "case-separator+fault",
                "variant-order" => "variant-order+fault",
                "attribute-order" => "attribute-order+fault",
                "keyword-order" => "keyword-order+fault",
                "tfield-order" => "tfield-order+fault",
                "tlang-variant-order" => "tlang-variant-order+fault",
                _ => "u-t-order+fault",
            };
            pairs.push((lab, inj(&x), inj(&y)));
        }
    }
    pairs
}

/// Replay form for structural pairs: JSON {"a": hex, "b": hex, "label": ...}
pub fn c09_check_pair(label: &str, a: &[u8], b: &[u8]) -> Vec<Fail> {
    cmp_pair(a, b, label)
}

pub fn run_c09(ctx: &mut Ctx) {
    let quick = ctx.quick();
    let cfg = StreamCfg::standard(quick).scaled(if quick { 4 } else { 5 }, if quick { 5 } else { 6 }, if quick { 4 } else { 5 });
    ctx.extra.insert("workload".into(), json!(format!("every input of [{}] x 2 of 6 byte-level case/separator masks (mask chosen by input hash; all 6 on G-langid and G-corpus); + random well-formed locales x structure-aware transformations (variant/attribute/keyword/tfield order and repetition, u/t block swap), one third of them with an identical fault injected into both members", cfg.describe())));
    let mut tagged: Vec<u8> = Vec::with_capacity(128);
    byte_stream(ctx, &cfg, &mut |ctx, b, src| {
        ctx.count(src.name());
        let h = mon::SigH::new(9).b(b).fin();
        let modes: &[u8] = if matches!(src, crate::stream::Src::LangidAlpha | crate::stream::Src::Corpus) { &[0, 1, 2, 3, 4, 5] } else { &[0, 0] };
        for (j, m) in modes.iter().enumerate() {
            let mode = if modes.len() == 2 { ((h >> (8 * j)) % 6) as u8 } else { *m };
            tagged.clear();
            tagged.push(mode);
            tagged.extend_from_slice(b);
            let t = c09_mask(b, mode);
            if t == b {
                ctx.count("mask-is-identity");
                continue;
            }
            ctx.evals += 1;
            // judged call first (see run_c03)
            let tg = tagged.clone();
            ctx.judge_bytes(&tg, &mut |c| c09_check_masks(c));
            let ok = mon::take_outcome() & 3 == 1;
            ctx.count(if ok { "pair:both-expected-ok" } else { "pair:both-expected-err" });
            if refspec::n_subtags(b) >= 2 {
                ctx.sig(refspec::class_seq_hash(9, b, (mode as u64) << 1 | ok as u64));
            }
        }
    });
    let n = if quick { 300_000u64 } else { 10_000_000 } / ctx.nshards as u64;
    let mut r = Rng::new(mix(&[ctx.seed, ctx.shard as u64, 0xC09]));
    for _ in 0..n {
        ctx.rng_state = Some(r.state());
        let sl = gen::gen_sloc(&mut r, true, true);
        for (label, a, b) in c09_struct_pairs(&sl, &mut r) {
            mon::begin_case(&a);
            ctx.evals += 1;
            ctx.count(label);
            let fails = c09_check_pair(label, &a, &b);
            let ok = mon::take_outcome() & 3 == 1;
            ctx.count(if ok { "pair:both-expected-ok" } else { "pair:both-expected-err" });
            ctx.sig(refspec::class_seq_hash(mon::SigH::new(0).b(label.as_bytes()).fin(), &a, ok as u64));
            if ctx.wants_sample(label) {
                ctx.sample(label, || json!({"transformation": label, "a": lossy(&a), "b": lossy(&b), "both_parse": ok}));
            }
            for f in fails {
                ctx.viol_total += 1;
                ctx.count_dyn(&format!("violation:{}", f.clause));
                if ctx.may_minimise(&f.clause) {
                    ctx.add_violation(&f.clause, json!({"label": label, "a": mon::bytes_json(&a), "b": mon::bytes_json(&b)}), json!(null), f.detail);
                }
            }
        }
    }
    ctx.rng_state = None;
    mon::idle();
    ctx.extra.insert("floors".into(), json!({"variant-order": 1000, "attribute-order": 1000, "keyword-order": 1000, "tfield-order": 500, "u-t-order": 1000, "pair:both-expected-ok": 10000, "pair:both-expected-err": 10000}));
}
