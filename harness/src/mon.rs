//! Monitor plumbing: panic recorder, CPU-time watchdog, counters, signature sets,
//! violation records, witness shrinkers, worker summary.

use serde_json::{json, Map, Value};
use std::cell::RefCell;
use std::collections::{BTreeMap, HashSet};
use std::hash::{BuildHasherDefault, Hasher};
use std::panic::{catch_unwind, AssertUnwindSafe};
use std::sync::atomic::{AtomicBool, AtomicU64, Ordering};
use std::sync::Mutex;

// ------------------------------------------------------------------ hashing

#[derive(Default, Clone, Copy)]
pub struct Fx(u64);
impl Hasher for Fx {
    #[inline]
    fn write(&mut self, bytes: &[u8]) {
        for b in bytes {
            self.0 = (self.0.rotate_left(5) ^ (*b as u64)).wrapping_mul(0x517c_c1b7_2722_0a95);
        }
    }
    #[inline]
    fn write_u64(&mut self, i: u64) {
        self.0 = (self.0.rotate_left(5) ^ i).wrapping_mul(0x517c_c1b7_2722_0a95);
    }
    #[inline]
    fn write_u8(&mut self, i: u8) {
        self.write_u64(i as u64)
    }
    #[inline]
    fn write_usize(&mut self, i: usize) {
        self.write_u64(i as u64)
    }
    #[inline]
    fn finish(&self) -> u64 {
        // final avalanche so that low bits are usable
        let mut z = self.0;
        z = (z ^ (z >> 30)).wrapping_mul(0xBF58_476D_1CE4_E5B9);
        z = (z ^ (z >> 27)).wrapping_mul(0x94D0_49BB_1331_11EB);
        z ^ (z >> 31)
    }
}
pub type FxBuild = BuildHasherDefault<Fx>;
pub type FxSet = HashSet<u64, FxBuild>;

pub struct SigH(Fx);
impl SigH {
    pub fn new(tag: u64) -> Self {
        let mut f = Fx::default();
        f.write_u64(tag);
        SigH(f)
    }
    #[inline]
    pub fn u(&mut self, x: u64) -> &mut Self {
        self.0.write_u64(x);
        self
    }
    #[inline]
    pub fn b(&mut self, x: &[u8]) -> &mut Self {
        self.0.write_u64(x.len() as u64);
        self.0.write(x);
        self
    }
    pub fn fin(&self) -> u64 {
        self.0.finish()
    }
}

// ------------------------------------------------------------------ panic recorder

thread_local! {
    static LAST_PANIC: RefCell<Option<String>> = const { RefCell::new(None) };
    static GUARD_DEPTH: std::cell::Cell<u32> = const { std::cell::Cell::new(0) };
}

pub fn install_panic_hook() {
    std::panic::set_hook(Box::new(|info| {
        let loc = info
            .location()
            .map(|l| format!("{}:{}", l.file(), l.line()))
            .unwrap_or_else(|| "?".into());
        let msg = if let Some(s) = info.payload().downcast_ref::<&str>() {
            (*s).to_string()
        } else if let Some(s) = info.payload().downcast_ref::<String>() {
            s.clone()
        } else {
            "<non-string panic payload>".into()
        };
        if GUARD_DEPTH.with(|d| d.get()) == 0 {
            // a panic of the harness itself (not inside a monitored call): make it visible
            eprintln!("HARNESS PANIC: {} @ {}", msg, loc);
        }
        LAST_PANIC.with(|p| *p.borrow_mut() = Some(format!("{} @ {}", msg, loc)));
    }));
}

/// Run `f`; a panic is turned into Err("message @ file:line").
#[inline]
pub fn guard<T>(f: impl FnOnce() -> T) -> Result<T, String> {
    GUARD_DEPTH.with(|d| d.set(d.get() + 1));
    let r = catch_unwind(AssertUnwindSafe(f));
    GUARD_DEPTH.with(|d| d.set(d.get().saturating_sub(1)));
    match r {
        Ok(v) => Ok(v),
        Err(_) => Err(LAST_PANIC
            .with(|p| p.borrow_mut().take())
            .unwrap_or_else(|| "panic (site not recorded)".into())),
    }
}

/// Strip absolute path prefixes and line-specific noise so that a panic site is a stable key.
pub fn panic_site(msg: &str) -> String {
    match msg.rfind(" @ ") {
        Some(i) => {
            let site = &msg[i + 3..];
            let site = site.rsplit_once("/repo/").map(|x| x.1).unwrap_or(site);
            site.to_string()
        }
        None => msg.to_string(),
    }
}

// ------------------------------------------------------------------ CPU-time watchdog

static CASE_SEQ: AtomicU64 = AtomicU64::new(0);
static ARMED: AtomicBool = AtomicBool::new(false);
/// multiplier of the CPU-time limit for the current case (1 for ordinary short inputs)
static LIMIT_SCALE: AtomicU64 = AtomicU64::new(1);
static CASE_BUF: Mutex<Vec<u8>> = Mutex::new(Vec::new());
static WATCH_META: Mutex<String> = Mutex::new(String::new());

thread_local! {
    static LAST_OUTCOME: std::cell::Cell<u32> = std::cell::Cell::new(0);
}
/// Side channel from a checker to its workload loop: what the library answered in the judged call
/// (bit 0/1 = first parser ok/err, bit 2/3 = second parser ok/err, 0 = nothing noted / panic). The loops use
/// it for their statistics instead of calling the library again: between two judged calls no other library
/// call may happen, because it would absorb state that the first left behind (and hide the defect).
pub fn note_outcome(code: u32) {
    LAST_OUTCOME.with(|c| c.set(code));
}
pub fn take_outcome() -> u32 {
    LAST_OUTCOME.with(|c| c.replace(0))
}
thread_local! {
    static LAST_TEXT: std::cell::RefCell<Option<String>> = std::cell::RefCell::new(None);
}
/// Same side channel for the serialised form of the value the judged call produced.
pub fn note_text(t: String) {
    LAST_TEXT.with(|c| *c.borrow_mut() = Some(t));
}
pub fn take_text() -> Option<String> {
    LAST_TEXT.with(|c| c.borrow_mut().take())
}
pub fn outcome_code<T, E>(r: &Result<Result<T, E>, String>) -> u32 {
    match r {
        Ok(Ok(_)) => 1,
        Ok(Err(_)) => 2,
        Err(_) => 0,
    }
}
pub fn outcome_str(code: u32) -> &'static str {
    match code & 3 {
        1 => "ok",
        2 => "err",
        _ => "panic",
    }
}

/// Mark the start of a monitored case (arms the watchdog). `desc` is what will be reported
/// as the witness if the case never finishes.
#[inline]
pub fn begin_case(desc: &[u8]) {
    #[cfg(not(miri))]
    {
        let mut g = CASE_BUF.lock().unwrap_or_else(|e| e.into_inner());
        g.clear();
        g.extend_from_slice(desc);
        drop(g);
        LIMIT_SCALE.store(1, Ordering::SeqCst);
        CASE_SEQ.fetch_add(1, Ordering::SeqCst);
        ARMED.store(true, Ordering::SeqCst);
    }
    #[cfg(miri)]
    {
        let _ = desc;
    }
}

/// As `begin_case`, for deliberately huge inputs (hundreds of kilobytes): the CPU-time limit of this
/// case is multiplied by `scale`, so that a correct but super-linear (e.g. quadratic) implementation
/// is not mistaken for a loop; the hang verdict proper is decided on the short inputs.
pub fn begin_case_scaled(desc: &[u8], scale: u64) {
    begin_case(desc);
    LIMIT_SCALE.store(scale.max(1), Ordering::SeqCst);
}

/// Disarm the watchdog (long harness-side computations that are not library calls).
pub fn idle() {
    ARMED.store(false, Ordering::SeqCst);
    CASE_SEQ.fetch_add(1, Ordering::SeqCst);
}

fn thread_cpu_ticks(tid: u64) -> Option<u64> {
    let s = std::fs::read_to_string(format!("/proc/self/task/{}/stat", tid)).ok()?;
    // fields after the ")" of comm: state is field 3; utime = 14, stime = 15 (1-based)
    let rest = &s[s.rfind(')')? + 2..];
    let f: Vec<&str> = rest.split_whitespace().collect();
    // user time only: a loop in the code under test burns user time; system time also accrues while the kernel reclaims
    // memory on behalf of a page fault of this thread, which on an overcommitted machine can take a minute inside one
    // perfectly ordinary case (observed once: 85 s charged to a 3-byte input whose whole shard takes 16 s)
    let ut: u64 = f.get(11)?.parse().ok()?;
    Some(ut)
}

fn gettid() -> u64 {
    // /proc/thread-self -> "<pid>/task/<tid>"
    std::fs::read_link("/proc/thread-self")
        .ok()
        .and_then(|p| p.file_name().and_then(|n| n.to_str().map(|s| s.to_string())))
        .and_then(|s| s.parse().ok())
        .unwrap_or(0)
}

/// Start the watchdog for the calling (worker) thread. A single call consuming more than
/// `limit_s` CPU-seconds is reported as a hang: one JSON line on stdout, exit status 3.
pub fn start_watchdog(meta: &str) {
    if cfg!(miri) {
        return;
    }
    *WATCH_META.lock().unwrap() = meta.to_string();
    let tid = gettid();
    if tid == 0 {
        return;
    }
    let limit_s: u64 = std::env::var("VMON_HANG_CPU_S")
        .ok()
        .and_then(|s| s.parse().ok())
        .unwrap_or(20);
    let ticks_per_s = 100u64; // USER_HZ on Linux
    // a single case that makes the process grow by more than this many kilobytes is reported like a hang (a loop that
    // allocates: the machine would run out of memory long before the CPU-time limit, and the kernel's out-of-memory
    // killer would then pick its victims among unrelated processes)
    let rss_limit_kb: u64 = std::env::var("VMON_CASE_RSS_GB").ok().and_then(|s| s.parse::<u64>().ok()).unwrap_or(3) * 1024 * 1024;
    fn rss_kb() -> u64 {
        std::fs::read_to_string("/proc/self/statm")
            .ok()
            .and_then(|s| s.split_whitespace().nth(1).and_then(|x| x.parse::<u64>().ok()))
            .map(|pages| pages * 4)
            .unwrap_or(0)
    }
    std::thread::spawn(move || {
        let mut last_seq = u64::MAX;
        let mut cpu_at_change = 0u64;
        let mut rss_at_change = 0u64;
        loop {
            std::thread::sleep(std::time::Duration::from_millis(200));
            let seq = CASE_SEQ.load(Ordering::SeqCst);
            let Some(cpu) = thread_cpu_ticks(tid) else { return };
            if seq != last_seq || !ARMED.load(Ordering::SeqCst) {
                last_seq = seq;
                cpu_at_change = cpu;
                rss_at_change = rss_kb();
                continue;
            }
            let grown = rss_kb().saturating_sub(rss_at_change);
            if grown > rss_limit_kb * LIMIT_SCALE.load(Ordering::SeqCst).min(4) {
                let buf = CASE_BUF.lock().unwrap_or_else(|e| e.into_inner()).clone();
                if CASE_SEQ.load(Ordering::SeqCst) != seq {
                    continue;
                }
                let meta = WATCH_META.lock().unwrap().clone();
                let out = json!({
                    "hang": true,
                    "meta": meta,
                    "cpu_s_in_one_case": (cpu - cpu_at_change) as f64 / ticks_per_s as f64,
                    "rss_growth_gb_in_one_case": grown as f64 / 1048576.0,
                    "witness_hex": hex(&buf),
                    "witness_lossy": String::from_utf8_lossy(&buf),
                });
                println!("{}", out);
                std::process::exit(3);
            }
            if cpu.saturating_sub(cpu_at_change) > limit_s * ticks_per_s * LIMIT_SCALE.load(Ordering::SeqCst) {
                let buf = CASE_BUF.lock().unwrap_or_else(|e| e.into_inner()).clone();
                // re-check that the case is still the same one
                if CASE_SEQ.load(Ordering::SeqCst) != seq {
                    continue;
                }
                let meta = WATCH_META.lock().unwrap().clone();
                let out = json!({
                    "hang": true,
                    "meta": meta,
                    "cpu_s_in_one_case": (cpu - cpu_at_change) as f64 / ticks_per_s as f64,
                    "witness_hex": hex(&buf),
                    "witness_lossy": String::from_utf8_lossy(&buf),
                });
                println!("{}", out);
                std::process::exit(3);
            }
        }
    });
}

// ------------------------------------------------------------------ helpers

pub fn hex(b: &[u8]) -> String {
    let mut s = String::with_capacity(b.len() * 2);
    for x in b {
        s.push_str(&format!("{:02x}", x));
    }
    s
}
pub fn unhex(s: &str) -> Vec<u8> {
    (0..s.len() / 2)
        .map(|i| u8::from_str_radix(&s[2 * i..2 * i + 2], 16).unwrap_or(0))
        .collect()
}
/// JSON rendering of a byte-string case: printable text if it is printable ASCII, hex always.
pub fn bytes_json(b: &[u8]) -> Value {
    json!({"text": String::from_utf8_lossy(b), "hex": hex(b)})
}

#[derive(Clone, Copy, PartialEq, Eq, Debug)]
pub enum Tier {
    Quick,
    Thorough,
}

#[derive(Clone, Debug)]
pub struct Fail {
    pub clause: String,
    pub detail: String,
}
pub fn fail(clause: impl Into<String>, detail: impl Into<String>) -> Fail {
    Fail {
        clause: clause.into(),
        detail: detail.into(),
    }
}

#[derive(Clone, Debug)]
pub struct Violation {
    pub clause: String,
    pub witness: Value,
    pub original: Value,
    pub detail: String,
    pub rng_state: Option<[u64; 4]>,
}

pub struct Ctx {
    pub prop: String,
    pub engine: String,
    pub tier: Tier,
    pub seed: u64,
    pub shard: usize,
    pub nshards: usize,
    pub evals: u64,
    counters: Vec<(&'static str, u64)>,
    dyn_counters: BTreeMap<String, u64>,
    pub sigs: FxSet,
    samples: BTreeMap<String, Vec<Value>>,
    pub violations: Vec<Violation>,
    pub viol_total: u64,
    viol_keys: HashSet<String>,
    minimise_budget: BTreeMap<String, u32>,
    pub notes: Vec<String>,
    pub extra: Map<String, Value>,
    pub rng_state: Option<[u64; 4]>,
    pub miri: bool,
    /// the last few inputs of the byte stream (oldest first): the context of a violation that
    /// depends on what was parsed before
    pub recent: Vec<Vec<u8>>,
}

pub const MAX_WITNESS_PER_CLAUSE: usize = 12;
pub const MAX_MINIMISE_PER_CLAUSE: u32 = 64;

impl Ctx {
    pub fn new(prop: &str, engine: &str, tier: Tier, seed: u64, shard: usize, nshards: usize) -> Self {
        Ctx {
            prop: prop.into(),
            engine: engine.into(),
            tier,
            seed,
            shard,
            nshards,
            evals: 0,
            counters: Vec::new(),
            dyn_counters: BTreeMap::new(),
            sigs: FxSet::default(),
            samples: BTreeMap::new(),
            violations: Vec::new(),
            viol_total: 0,
            viol_keys: HashSet::new(),
            minimise_budget: BTreeMap::new(),
            notes: Vec::new(),
            extra: Map::new(),
            rng_state: None,
            miri: cfg!(miri),
            recent: Vec::new(),
        }
    }
    pub fn quick(&self) -> bool {
        self.tier == Tier::Quick
    }
    #[inline]
    pub fn count(&mut self, key: &'static str) {
        self.count_n(key, 1)
    }
    #[inline]
    pub fn count_n(&mut self, key: &'static str, n: u64) {
        for e in self.counters.iter_mut() {
            if std::ptr::eq(e.0, key) || e.0 == key {
                e.1 += n;
                return;
            }
        }
        self.counters.push((key, n));
    }
    pub fn count_dyn(&mut self, key: &str) {
        *self.dyn_counters.entry(key.to_string()).or_insert(0) += 1;
    }
    pub fn get_count(&self, key: &str) -> u64 {
        self.counters
            .iter()
            .find(|e| e.0 == key)
            .map(|e| e.1)
            .unwrap_or(0)
            + self.dyn_counters.get(key).copied().unwrap_or(0)
    }
    #[inline]
    pub fn sig(&mut self, h: u64) {
        self.sigs.insert(h);
    }
    /// Keep up to 3 samples per category.
    pub fn sample(&mut self, cat: &str, mk: impl FnOnce() -> Value) {
        match self.samples.get_mut(cat) {
            Some(v) if v.len() >= 3 => {}
            Some(v) => v.push(mk()),
            None => {
                self.samples.insert(cat.to_string(), vec![mk()]);
            }
        }
    }
    pub fn wants_sample(&self, cat: &str) -> bool {
        self.samples.get(cat).map_or(true, |v| v.len() < 3)
    }

    /// Is it worth minimising another witness of this clause?
    pub fn may_minimise(&mut self, clause: &str) -> bool {
        let n_have = self.violations.iter().filter(|v| v.clause == clause).count();
        if n_have >= MAX_WITNESS_PER_CLAUSE {
            return false;
        }
        let b = self.minimise_budget.entry(clause.to_string()).or_insert(0);
        if *b >= MAX_MINIMISE_PER_CLAUSE {
            return false;
        }
        *b += 1;
        true
    }
    /// Record a (minimised) violation; duplicates (same clause + same witness) are dropped.
    /// Called by the byte stream before each input is judged.
    pub fn remember(&mut self, b: &[u8]) {
        if self.recent.len() >= 4 {
            self.recent.remove(0);
        }
        self.recent.push(b[..b.len().min(256)].to_vec());
    }

    pub fn add_violation(&mut self, clause: &str, witness: Value, original: Value, detail: String) {
        let key = format!("{}|{}", clause, witness);
        if !self.viol_keys.insert(key) {
            return;
        }
        if self.violations.iter().filter(|v| v.clause == clause).count() >= MAX_WITNESS_PER_CLAUSE {
            return;
        }
        self.violations.push(Violation {
            clause: clause.to_string(),
            witness,
            original,
            detail,
            rng_state: self.rng_state,
        });
    }

    /// Standard handling of a byte-string case: run `checker`, and for every failing clause
    /// count it and (within budget) shrink the input while the same clause still fails.
    pub fn judge_bytes(&mut self, input: &[u8], checker: &mut dyn FnMut(&[u8]) -> Vec<Fail>) -> bool {
        let fails = checker(input);
        if fails.is_empty() {
            return true;
        }
        let first_outcome = take_outcome();
        let first_text = take_text();
        let mut seen: Vec<&str> = vec![];
        for f in &fails {
            if seen.contains(&f.clause.as_str()) {
                continue;
            }
            seen.push(&f.clause);
            self.viol_total += 1;
            self.count_dyn(&format!("violation:{}", f.clause));
            if self.may_minimise(&f.clause) {
                let clause = f.clause.as_str();
                // does the failure reproduce on this input alone? if not, it depends on the calls made before it
                let alone = checker(input).iter().any(|g| g.clause == clause);
                if !alone {
                    let mut w = bytes_json(input);
                    let ctxt: Vec<Value> = self.recent.iter().filter(|p| p.as_slice() != input).map(|p| bytes_json(p)).collect();
                    w["preceded_by"] = Value::Array(ctxt);
                    let detail = format!("[not reproducible on this input alone: depends on the preceding calls, see witness.preceded_by] {}", f.detail);
                    self.add_violation(clause, w, Value::Null, detail);
                    continue;
                }
                let min = shrink_bytes(input, &mut |c: &[u8]| checker(c).iter().any(|g| g.clause == clause));
                let detail = checker(&min)
                    .into_iter()
                    .find(|g| g.clause == clause)
                    .map(|g| g.detail)
                    .unwrap_or_else(|| f.detail.clone());
                self.add_violation(clause, bytes_json(&min), bytes_json(input), detail);
            }
        }
        note_outcome(first_outcome);
        if let Some(t) = first_text {
            note_text(t);
        }
        false
    }

    pub fn summary(&self, sigfile: Option<&str>) -> Value {
        let mut counters = Map::new();
        for (k, v) in &self.counters {
            let e = counters.entry(k.to_string()).or_insert(json!(0));
            *e = json!(e.as_u64().unwrap_or(0) + v);
        }
        for (k, v) in &self.dyn_counters {
            let e = counters.entry(k.to_string()).or_insert(json!(0));
            *e = json!(e.as_u64().unwrap_or(0) + v);
        }
        let viol: Vec<Value> = self
            .violations
            .iter()
            .map(|v| {
                json!({"clause": v.clause, "witness": v.witness, "original": v.original,
                       "detail": v.detail, "rng_state": v.rng_state.map(|s| s.to_vec())})
            })
            .collect();
        json!({
            "property": self.prop,
            "engine": self.engine,
            "shard": self.shard,
            "nshards": self.nshards,
            "seed": self.seed,
            "tier": if self.tier == Tier::Quick { "quick" } else { "thorough" },
            "evals": self.evals,
            "counters": counters,
            "sig_count": self.sigs.len(),
            "sigfile": sigfile,
            "samples": self.samples,
            "violations": viol,
            "viol_total": self.viol_total,
            "notes": self.notes,
            "extra": self.extra,
            "miri": self.miri,
        })
    }

    pub fn write_sigs(&self, path: &str) -> std::io::Result<()> {
        let mut v: Vec<u64> = self.sigs.iter().copied().collect();
        v.sort_unstable();
        let mut out = Vec::with_capacity(v.len() * 8);
        for x in v {
            out.extend_from_slice(&x.to_le_bytes());
        }
        std::fs::write(path, out)
    }
}

// ------------------------------------------------------------------ shrinkers

fn is_sep(b: u8) -> bool {
    b == b'-' || b == b'_'
}

/// Deterministic shrinker for subtag-structured byte strings. `bad(c)` must be true for the
/// original; the result is a (locally) minimal input for which it is still true.
pub fn shrink_bytes(input: &[u8], bad: &mut dyn FnMut(&[u8]) -> bool) -> Vec<u8> {
    let mut cur = input.to_vec();
    let mut budget = 4000u32;
    loop {
        let mut progressed = false;
        // 1. drop whole subtags (with one adjoining separator)
        let mut i = 0;
        loop {
            let parts: Vec<(usize, usize)> = subtag_spans(&cur);
            if i >= parts.len() || parts.len() <= 1 {
                break;
            }
            let (s, e) = parts[i];
            let mut cand = Vec::with_capacity(cur.len());
            if i == 0 {
                cand.extend_from_slice(&cur[(e + 1).min(cur.len())..]);
            } else {
                cand.extend_from_slice(&cur[..s - 1]);
                cand.extend_from_slice(&cur[e..]);
            }
            if budget == 0 {
                return cur;
            }
            budget -= 1;
            if cand.len() < cur.len() && bad(&cand) {
                cur = cand;
                progressed = true;
            } else {
                i += 1;
            }
        }
        // 2. delete single bytes
        let mut i = 0;
        while i < cur.len() {
            let mut cand = cur.clone();
            cand.remove(i);
            if budget == 0 {
                return cur;
            }
            budget -= 1;
            if bad(&cand) {
                cur = cand;
                progressed = true;
            } else {
                i += 1;
            }
        }
        // 3. canonicalise bytes to the lowest member of their class
        for i in 0..cur.len() {
            let b = cur[i];
            let repl = if b.is_ascii_lowercase() || b.is_ascii_uppercase() {
                b'a'
            } else if b.is_ascii_digit() {
                b'0'
            } else if b == b'_' {
                b'-'
            } else {
                b
            };
            if repl != b {
                let mut cand = cur.clone();
                cand[i] = repl;
                if budget == 0 {
                    return cur;
                }
                budget -= 1;
                if bad(&cand) {
                    cur = cand;
                    progressed = true;
                }
            }
        }
        if !progressed {
            return cur;
        }
    }
}

fn subtag_spans(b: &[u8]) -> Vec<(usize, usize)> {
    let mut v = vec![];
    let mut s = 0;
    for (i, c) in b.iter().enumerate() {
        if is_sep(*c) {
            v.push((s, i));
            s = i + 1;
        }
    }
    v.push((s, b.len()));
    v
}

/// Generic list shrinker (operation histories etc.): drop elements while `bad` holds.
pub fn shrink_list<T: Clone>(input: &[T], bad: &mut dyn FnMut(&[T]) -> bool) -> Vec<T> {
    let mut cur = input.to_vec();
    let mut budget = 3000u32;
    // try chunks first, then single elements
    let mut chunk = (cur.len() / 2).max(1);
    loop {
        let mut i = 0;
        let mut progressed = false;
        while i < cur.len() {
            let end = (i + chunk).min(cur.len());
            let mut cand = cur[..i].to_vec();
            cand.extend_from_slice(&cur[end..]);
            if budget == 0 {
                return cur;
            }
            budget -= 1;
            if bad(&cand) {
                cur = cand;
                progressed = true;
            } else {
                i += chunk;
            }
        }
        if chunk == 1 && !progressed {
            return cur;
        }
        if chunk > 1 {
            chunk /= 2;
        }
    }
}
