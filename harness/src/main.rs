//! vmon — runtime monitors for unic-locale. One binary, one sub-command per engine.
//!
//!   vmon run <engine> --tier quick|thorough --seed N --shard i/N [--sigfile PATH]
//!   vmon replay <engine> <hex-bytes>
//!   vmon list
mod engines;
mod gen;
mod likely;
mod model;
mod mon;
mod obs;
mod refspec;
mod rng;
mod stream;

use mon::{Ctx, Tier};
use serde_json::json;

fn arg_after(args: &[String], flag: &str) -> Option<String> {
    args.iter().position(|a| a == flag).and_then(|i| args.get(i + 1).cloned())
}

fn main() {
    let args: Vec<String> = std::env::args().collect();
    mon::install_panic_hook();
    let engines = engines::engines();
    match args.get(1).map(|s| s.as_str()) {
        Some("list") => {
            for e in &engines {
                println!("{} {}", e.name, e.prop);
            }
        }
        Some("run") => {
            let name = args.get(2).expect("engine name");
            let e = engines.iter().find(|e| e.name == *name).unwrap_or_else(|| {
                eprintln!("unknown engine {}", name);
                std::process::exit(2)
            });
            let tier = match arg_after(&args, "--tier").as_deref() {
                Some("thorough") => Tier::Thorough,
                _ => Tier::Quick,
            };
            let seed: u64 = arg_after(&args, "--seed").and_then(|s| s.parse().ok()).unwrap_or(1);
            let (shard, nshards) = arg_after(&args, "--shard")
                .and_then(|s| {
                    let (a, b) = s.split_once('/')?;
                    Some((a.parse().ok()?, b.parse().ok()?))
                })
                .unwrap_or((0usize, 1usize));
            let sigfile = arg_after(&args, "--sigfile");
            let mut ctx = Ctx::new(e.prop, e.name, tier, seed, shard, nshards);
            mon::start_watchdog(&format!("{} shard {}/{}", e.name, shard, nshards));
            let t0 = std::time::Instant::now();
            (e.run)(&mut ctx);
            mon::idle();
            ctx.extra.insert("worker_wall_s".into(), json!(t0.elapsed().as_secs_f64()));
            if let Some(p) = &sigfile {
                if let Err(err) = ctx.write_sigs(p) {
                    eprintln!("cannot write {}: {}", p, err);
                    std::process::exit(2);
                }
            }
            println!("{}", ctx.summary(sigfile.as_deref()));
        }
        Some("replay") => {
            let name = args.get(2).expect("engine name");
            let e = engines.iter().find(|e| e.name == *name).unwrap_or_else(|| {
                eprintln!("unknown engine {}", name);
                std::process::exit(2)
            });
            let Some(f) = e.replay_bytes else {
                eprintln!("engine {} has no byte replay", name);
                std::process::exit(2)
            };
            let bytes = mon::unhex(args.get(3).expect("hex bytes"));
            let fails = f(&bytes);
            let out: Vec<_> = fails.iter().map(|f| json!({"clause": f.clause, "detail": f.detail})).collect();
            println!("{}", json!({"engine": name, "input": mon::bytes_json(&bytes), "fails": out}));
            std::process::exit(if fails.is_empty() { 0 } else { 1 });
        }
        Some("replay-json") => {
            let name = args.get(2).expect("engine name");
            let e = engines.iter().find(|e| e.name == *name).unwrap_or_else(|| {
                eprintln!("unknown engine {}", name);
                std::process::exit(2)
            });
            let Some(f) = e.replay_json else {
                eprintln!("engine {} has no structured replay", name);
                std::process::exit(2)
            };
            let v: serde_json::Value = serde_json::from_str(args.get(3).expect("json")).expect("valid json");
            let fails = f(&v);
            let out: Vec<_> = fails.iter().map(|f| json!({"clause": f.clause, "detail": f.detail})).collect();
            println!("{}", json!({"engine": name, "witness": v, "fails": out}));
            std::process::exit(if fails.is_empty() { 0 } else { 1 });
        }
        _ => {
            eprintln!("usage: vmon run|replay|replay-json|list ...");
            std::process::exit(2);
        }
    }
}
