//! Literal generator for the macro lab (C16). Well-formed literals come from the oracle's
//! Accept / MustAccept zones, ill-formed ones from its Reject / MustReject zones ("either"
//! zones are never used, so every case has exactly one admissible compile-time outcome).

use crate::gen;
use crate::refspec::{self, classify_langid, classify_locale, subtag_expect, LiVerdict, SubtagKind, Zone};
use crate::rng::{mix, Rng};
use serde_json::{json, Value};

fn utf8(b: &[u8]) -> Option<String> {
    String::from_utf8(b.to_vec()).ok()
}

fn subtag_cases(out: &mut Vec<Value>, mac: &str, kind: SubtagKind, pool: &[&str], r: &mut Rng, n: usize) {
    let mut goods = 0;
    let mut bads = 0;
    // fixed boundary cases first
    let fixed: &[&str] = match kind {
        // (the last entries of each list: a well-formed subtag repeated, followed or preceded by a separator, or
        // followed by another well-formed subtag - text that a macro which routes its literal through the identifier
        // parser, with its sorting and de-duplication, may take for a single subtag)
        SubtagKind::Language => &["en", "EN", "und", "UND", "Und", "abc", "abcde", "abcdefgh", "abcd", "a", "abcdefghi", "e1", "", "en-US", "\u{e9}n", "en ", "en-en", "en_EN", "en-", "-en", "und-und"],
        SubtagKind::Script => &["Latn", "latn", "LATN", "lat", "latin", "l4tn", "", "Lat\u{f1}", "Latn-Latn", "latn_LATN", "Latn-", "und-Latn", "Latn-US"],
        SubtagKind::Region => &["US", "us", "001", "999", "USA", "u", "01", "0001", "u1", "", "419", "US-US", "us_US", "US-", "und-US", "001-001", "US-macos"],
        SubtagKind::Variant => &["macos", "MACOS", "1996", "1abc", "abcd", "valencia", "12345678", "123456789", "abc", "a1b2c", "1ab", "12_45", "", "macos-macos", "1996_1996", "MacOS-macos", "macos-", "und-macos", "macos-1996", "1996-macos"],
    };
    for s in fixed {
        let ok = subtag_expect(kind, s.as_bytes()).is_some();
        out.push(json!({"macro": mac, "lits": [s], "expect": if ok { "ok" } else { "err" }}));
    }
    while goods < n || bads < n / 2 {
        let base = r.pick(pool).to_string();
        let cand: Vec<u8> = if r.chance(1, 2) { gen::render(&[base], r, 3, 0) } else { gen::mutate(base.as_bytes(), r) };
        let Some(s) = utf8(&cand) else { continue };
        let ok = subtag_expect(kind, s.as_bytes()).is_some();
        if ok && goods < n {
            goods += 1;
        } else if !ok && bads < n / 2 {
            bads += 1;
        } else {
            continue;
        }
        out.push(json!({"macro": mac, "lits": [s], "expect": if ok { "ok" } else { "err" }}));
    }
}

pub fn cases(quick: bool, seed: u64) -> Vec<Value> {
    let mut r = Rng::new(mix(&[seed, 0xC16]));
    let mut out: Vec<Value> = vec![];
    let k = if quick { 2 } else { 10 };
    subtag_cases(&mut out, "lang", SubtagKind::Language, gen::LANGS, &mut r, 12 * k);
    subtag_cases(&mut out, "script", SubtagKind::Script, gen::SCRIPTS, &mut r, 8 * k);
    subtag_cases(&mut out, "region", SubtagKind::Region, gen::REGIONS, &mut r, 8 * k);
    subtag_cases(&mut out, "variant", SubtagKind::Variant, gen::VARIANTS, &mut r, 12 * k);
    // the same literal text handed to every subtag macro, in both orders (a text can be a well-formed language
    // and an ill-formed script; whatever one macro learned about it must not carry over to the next one)
    let kinds = [("region", SubtagKind::Region), ("lang", SubtagKind::Language), ("variant", SubtagKind::Variant), ("script", SubtagKind::Script)];
    for (n, text) in ["us", "US", "aa", "abc", "ABC", "latn", "Latn", "1996", "abcde", "abcdefgh", "001", "und", "a1b2c", "en", "posix", "12345678"].iter().enumerate() {
        let order: Vec<usize> = if n % 2 == 0 { vec![0, 1, 2, 3, 1, 0] } else { vec![3, 2, 1, 0, 2, 3] };
        for k in order {
            let (mac, kind) = kinds[k];
            let ok = subtag_expect(kind, text.as_bytes()).is_some();
            out.push(json!({"macro": mac, "lits": [text], "expect": if ok { "ok" } else { "err" }}));
        }
    }
    // langid!
    for s in ["en", "und", "UND-latn", "en_us", "EN-latn-us-VALENCIA-1996", "sr-Cyrl-RS", "de-1996-macos-1996", "zh-Hant-TW", "und-419", "abcdefgh-abcde", "undef-Latn-US", "UNDabcde", "en-Latn-001-valencia-1996-macos-abcdefgh-12345-zzzzz-a1b2c-nedis-fonipa"] {
        out.push(json!({"macro": "langid", "lits": [s], "expect": "ok"}));
    }
    for s in ["", "e", "en-", "en--US", "en-US-u-ca-buddhist", "en-abcd-Latn", "english-language-x", "en-US-US", "en US", "en-\u{e9}", "-en", "en-u"] {
        out.push(json!({"macro": "langid", "lits": [s], "expect": "err"}));
    }
    let (mut g, mut b) = (0, 0);
    let (ng, nb) = (60 * k, 30 * k);
    while g < ng || b < nb {
        let id = gen::gen_sid(&mut r, true);
        let mut t = vec![];
        id.tokens(&mut t);
        let bytes = if r.chance(2, 3) { gen::render_random(&t, &mut r) } else { gen::mutate(&gen::render_random(&t, &mut r), &mut r) };
        let Some(s) = utf8(&bytes) else { continue };
        let ok = matches!(classify_langid(s.as_bytes()), LiVerdict::Accept(_));
        if ok && g < ng {
            g += 1;
        } else if !ok && b < nb {
            b += 1;
        } else {
            continue;
        }
        out.push(json!({"macro": "langid", "lits": [s], "expect": if ok { "ok" } else { "err" }}));
    }
    // locale!
    for s in [
        "en", "und", "en-US-u-hc-h12", "en-t-k0-dvorak-u-ca-buddhist", "en-t-en-us-k0-dvorak-x-foo", "en-u-foo-bar-ca-buddhist-true-nu-thai",
        "EN_u_CA_Buddhist", "und-x-a", "de-t-de-latn-at-1996-h0-hybrid-u-hc-h12-x-a-b", "en-u-ca-true", "en-t-k0-true", "en-u-ca-abc-t-k0-abc",
        "en-x-u-ca", "zh-Hant-TW-u-1a-abc", "undef-u-ca-abc", "en-x-a", "de_X_1", "en-t-undef-latn",
    ] {
        out.push(json!({"macro": "locale", "lits": [s], "expect": "ok"}));
    }
    for s in ["", "en-USA", "en-u-ca-buddhist-u-nu-thai", "en-t-en-US-fr", "en-u-a1", "en-x-123456789", "en-u-ca-toolongvalue", "en-t-k0-ab", "e1-u-ca", "en-\u{e9}-u-ca", "en-a1b2c3d4e"] {
        out.push(json!({"macro": "locale", "lits": [s], "expect": "err"}));
    }
    let (mut g, mut b) = (0, 0);
    let (ng, nb) = (120 * k, 50 * k);
    while g < ng || b < nb {
        let sl = gen::gen_sloc(&mut r, false, true);
        let bytes = if r.chance(2, 3) { gen::render_random(&sl.tokens(), &mut r) } else { gen::mutate(&gen::render_random(&sl.tokens(), &mut r), &mut r) };
        let Some(s) = utf8(&bytes) else { continue };
        let z = classify_locale(s.as_bytes());
        let (ok, bad) = (matches!(z, Zone::MustAccept(_)), matches!(z, Zone::MustReject(_)));
        if ok && g < ng {
            g += 1;
        } else if bad && b < nb {
            b += 1;
        } else {
            continue;
        }
        out.push(json!({"macro": "locale", "lits": [s], "expect": if ok { "ok" } else { "err" }}));
    }
    // list macros
    for (mac, is_loc) in [("langids", false), ("langid_slice", false), ("locales", true)] {
        for i in 0..(10 * k) {
            // i == 0: empty list; i == 1: one very long list (expansion depth / recursion limits); else short lists
            let n = if i == 0 { 0 } else if i == 1 { 150 + r.below(60) } else { 1 + r.below(4) };
            let mut lits: Vec<String> = vec![];
            let poison = i % 3 == 2;
            while lits.len() < n {
                let s = if is_loc {
                    let sl = gen::gen_sloc(&mut r, false, true);
                    utf8(&gen::render_random(&sl.tokens(), &mut r)).unwrap()
                } else {
                    let id = gen::gen_sid(&mut r, true);
                    let mut t = vec![];
                    id.tokens(&mut t);
                    utf8(&gen::render_random(&t, &mut r)).unwrap()
                };
                let ok = if is_loc { matches!(classify_locale(s.as_bytes()), Zone::MustAccept(_)) } else { matches!(classify_langid(s.as_bytes()), LiVerdict::Accept(_)) };
                if ok {
                    lits.push(s);
                }
            }
            let mut expect = "ok";
            if poison && n > 0 {
                let at = r.below(n);
                lits[at] = if is_loc { "en-u-ca-buddhist-u-nu-thai".into() } else { "en-US-US".into() };
                expect = "err";
            }
            out.push(json!({"macro": mac, "lits": lits, "expect": expect, "trailing_comma": i % 2 == 1 && n > 0}));
        }
    }
    let _ = refspec::n_subtags(b"");
    out
}
