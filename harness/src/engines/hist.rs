//! C10 (lock-step histories vs R-model) and the history/constructor side of C04 and C05.

use crate::engines::parse;
use crate::gen;
use crate::likely::Likely;
use crate::model::{self, Op};
use crate::mon::{self, fail, guard, Ctx, Fail, SigH};
use crate::obs::obs_loc;
use crate::refspec::Loc;
use crate::rng::{mix, Rng};
use crate::stream::{byte_stream, StreamCfg};
use serde_json::{json, Value};
use unic_langid_impl::subtags::{Language, Region, Script, Variant};
use unic_langid_impl::LanguageIdentifier;
use unic_locale_impl::{ExtensionsMap, Locale};

fn shape_sig(m: &Loc) -> u64 {
    let mut h = SigH::new(0x5a);
    h.u((m.id.lang == "und") as u64)
        .u(m.id.script.is_some() as u64)
        .u(m.id.region.is_some() as u64)
        .u(m.id.variants.len().min(3) as u64)
        .u(m.attrs.len().min(3) as u64)
        .u(m.keywords.len().min(3) as u64)
        .u(m.tlang.is_some() as u64)
        .u(m.tfields.len().min(3) as u64)
        .u(m.private.len().min(3) as u64);
    h.fin()
}

fn kind_hash(op: &Op) -> u64 {
    SigH::new(1).b(op.kind().as_bytes()).fin()
}

fn report_history(ctx: &mut Ctx, start: &str, ops: &[Op], f: &Fail, likely: Option<&Likely>) {
    ctx.viol_total += 1;
    ctx.count_dyn(&format!("violation:{}", f.clause));
    if !ctx.may_minimise(&f.clause) {
        return;
    }
    let clause = f.clause.clone();
    let min = mon::shrink_list(ops, &mut |c: &[Op]| model::run_history(start, c, likely).iter().any(|(_, g)| g.clause == clause));
    let detail = model::run_history(start, &min, likely)
        .into_iter()
        .find(|(_, g)| g.clause == clause)
        .map(|(i, g)| format!("step {}: {}", i, g.detail))
        .unwrap_or_else(|| f.detail.clone());
    ctx.add_violation(&clause, model::history_json(start, &min), model::history_json(start, ops), detail);
}

pub fn c10_replay(v: &Value) -> Vec<Fail> {
    let likely = Likely::load().ok();
    match model::history_from_json(v) {
        Some((start, ops)) => model::run_history(&start, &ops, likely.as_ref()).into_iter().map(|(i, f)| fail(f.clause, format!("step {}: {}", i, f.detail))).collect(),
        None => vec![fail("bad-replay", "cannot decode history")],
    }
}

struct Dfs<'a> {
    alpha: &'a [Op],
    likely: Option<&'a Likely>,
    start: &'a str,
    path: Vec<Op>,
    prev_kind: u64,
}

fn dfs(ctx: &mut Ctx, d: &mut Dfs, l: &Locale, m: &Loc, depth_left: usize) {
    if depth_left == 0 {
        return;
    }
    for op in d.alpha {
        let mut l2 = l.clone();
        let mut m2 = m.clone();
        d.path.push(op.clone());
        mon::begin_case(op.kind().as_bytes());
        let (ret, fails) = model::step(&mut l2, &mut m2, op, d.likely);
        ctx.evals += 1;
        let kh = kind_hash(op);
        ctx.sig(SigH::new(10).u(d.prev_kind).u(kh).u(ret.kind_id()).u(shape_sig(&m2)).fin());
        if let Some(f) = fails.first() {
            let path = d.path.clone();
            report_history(ctx, d.start, &path, f, d.likely);
        } else {
            let pk = d.prev_kind;
            d.prev_kind = kh;
            dfs(ctx, d, &l2, &m2, depth_left - 1);
            d.prev_kind = pk;
        }
        d.path.pop();
    }
}

pub fn run_c10(ctx: &mut Ctx) {
    let likely = match Likely::load() {
        Ok(l) => l,
        Err(e) => {
            ctx.notes.push(format!("HARNESS-ERROR cannot load likelySubtags.json: {}", e));
            return;
        }
    };
    let alpha = model::alphabet();
    let quick = ctx.quick();
    let k = alpha.len();
    // exhaustive part: all histories of length <= depth over the alphabet, from every start value
    // (quick: depth 3 everywhere; thorough: depth 4 from the first 5 start values, 3 from the rest)
    let mut unit = 0usize;
    let mut hist_count = 0u64;
    for (si, start) in model::START_VALUES.iter().enumerate() {
        let depth = if quick { 3 } else if si < 5 { 4 } else { 3 };
        let l0: Locale = match start.parse() {
            Ok(l) => l,
            Err(e) => {
                ctx.notes.push(format!("start value {:?} does not parse: {:?}", start, e));
                continue;
            }
        };
        let m0 = obs_loc(&l0);
        let f0 = model::compare_state(&l0, &m0);
        if let Some(f) = f0.first() {
            report_history(ctx, start, &[], f, Some(&likely));
            continue;
        }
        for i in 0..k {
            for j in 0..k {
                if unit % ctx.nshards == ctx.shard {
                    // prefix (i, j) then everything below
                    let mut l = l0.clone();
                    let mut m = m0.clone();
                    let mut d = Dfs { alpha: &alpha, likely: Some(&likely), start, path: vec![], prev_kind: 0 };
                    let mut ok = true;
                    for (pi, idx) in [i, j].iter().enumerate() {
                        let op = &alpha[*idx];
                        d.path.push(op.clone());
                        let (ret, fails) = model::step(&mut l, &mut m, op, Some(&likely));
                        // the first-level step is shared by k units: count/judge it once (in the unit j == 0)
                        if pi == 1 || j == 0 {
                            ctx.evals += 1;
                            ctx.sig(SigH::new(10).u(d.prev_kind).u(kind_hash(op)).u(ret.kind_id()).u(shape_sig(&m)).fin());
                            if let Some(f) = fails.first() {
                                let path = d.path.clone();
                                report_history(ctx, start, &path, f, Some(&likely));
                            }
                        }
                        if !fails.is_empty() {
                            ok = false;
                            break;
                        }
                        d.prev_kind = kind_hash(op);
                    }
                    if ok {
                        dfs(ctx, &mut d, &l, &m, depth - 2);
                        hist_count += (k as u64).pow((depth - 2) as u32);
                    }
                }
                unit += 1;
            }
        }
    }
    ctx.count_n("exhaustive_histories", hist_count);
    mon::idle();
    // random long histories
    let n = if quick { 12_000u64 } else { 800_000 } / ctx.nshards as u64;
    let mut r = Rng::new(mix(&[ctx.seed, ctx.shard as u64, 0xC10]));
    for _ in 0..n {
        ctx.rng_state = Some(r.state());
        let start = *r.pick(model::START_VALUES);
        let len = 30 + r.below(271);
        let ops: Vec<Op> = model::random_history(&mut r, len);
        let Ok(mut l) = start.parse::<Locale>() else {
            ctx.count("setup: start value rejected by the library (history skipped)");
            continue;
        };
        let mut m = obs_loc(&l);
        let mut prev = 0u64;
        ctx.count("random_histories");
        for (i, op) in ops.iter().enumerate() {
            mon::begin_case(op.kind().as_bytes());
            let (ret, fails) = model::step(&mut l, &mut m, op, Some(&likely));
            ctx.evals += 1;
            let kh = kind_hash(op);
            ctx.sig(SigH::new(10).u(prev).u(kh).u(ret.kind_id()).u(shape_sig(&m)).fin());
            prev = kh;
            match ret {
                model::Ret::Err => ctx.count("step:returned-error"),
                _ => ctx.count("step:returned-ok"),
            }
            if let Some(f) = fails.first() {
                report_history(ctx, start, &ops[..=i], f, Some(&likely));
                break;
            }
        }
        if ctx.wants_sample("random-history") {
            ctx.sample("random-history", || json!({"start": start, "first_ops": ops.iter().take(8).map(|o| o.to_json()).collect::<Vec<_>>(), "length": ops.len(), "final": l.to_string()}));
        }
    }
    ctx.rng_state = None;
    mon::idle();
    // argument sweep: every argument-taking operation with (a) every byte string of length 0-2, (b) every string of
    // length 3 (thorough: and 4) over the 19 class-boundary bytes, (c) every single-byte substitution (256 values at
    // every position) of one valid word of every class and length - as a one-step history from an empty and from a
    // fully populated value. The pools of the histories above hold a few dozen hand-picked invalid arguments; a
    // validator that is wrong for one byte value, or only at one position, needs the whole byte range at that position.
    {
        const BOUNDARY: &[u8] = b"azAZ09@[`{/:-_ \x00\x7f\x80\xff";
        let mut args: Vec<Vec<u8>> = vec![vec![]];
        for a in 0..=255u8 {
            args.push(vec![a]);
        }
        for a in 0..=255u8 {
            for b in 0..=255u8 {
                args.push(vec![a, b]);
            }
        }
        for a in BOUNDARY {
            for b in BOUNDARY {
                for c in BOUNDARY {
                    args.push(vec![*a, *b, *c]);
                    if !quick {
                        for d in BOUNDARY {
                            args.push(vec![*a, *b, *c, *d]);
                        }
                    }
                }
            }
        }
        for w in ["en", "abc", "abcde", "abcdefgh", "Latn", "US", "001", "macos", "1996", "12345678", "ca", "k0", "h12", "foobar", "true", "a", "zz1", "de-Latn-AT-1996"] {
            for i in 0..w.len() {
                for x in 0..=255u8 {
                    let mut v = w.as_bytes().to_vec();
                    v[i] = x;
                    args.push(v);
                }
            }
        }
        // compound arguments: two words (valid members of some class, or not) joined by a separator
        {
            let words = ["en", "abc", "abcde", "abcdefgh", "Latn", "US", "001", "macos", "1996", "12345678", "ca", "k0", "h12", "foobar", "true", "a", "zz1", "aaa", "toolongvalue", "", "\u{e9}", "!"];
            for w1 in words {
                for w2 in words {
                    for sep in ["-", "_"] {
                        args.push(format!("{}{}{}", w1, sep, w2).into_bytes());
                    }
                }
            }
        }
        let abc = || b"abc".to_vec();
        let kinds: Vec<(&'static str, Box<dyn Fn(Vec<u8>) -> Op>)> = vec![
            ("set_language", Box::new(Op::SetLanguage)),
            ("set_script", Box::new(|a| Op::SetScript(Some(a)))),
            ("set_region", Box::new(|a| Op::SetRegion(Some(a)))),
            ("set_variants[a]", Box::new(|a| Op::SetVariants(vec![a]))),
            ("set_variants[valid,a]", Box::new(|a| Op::SetVariants(vec![b"valencia".to_vec(), a]))),
            ("set_keyword(a,[abc])", Box::new(move |a| Op::SetKeyword(a, vec![abc()]))),
            ("set_keyword(ca,[a])", Box::new(|a| Op::SetKeyword(b"ca".to_vec(), vec![a]))),
            ("set_keyword(ca,[abc,a])", Box::new(move |a| Op::SetKeyword(b"ca".to_vec(), vec![abc(), a]))),
            ("remove_keyword", Box::new(Op::RemoveKeyword)),
            ("set_attribute", Box::new(Op::SetAttribute)),
            ("remove_attribute", Box::new(Op::RemoveAttribute)),
            ("set_tlang", Box::new(Op::SetTlang)),
            ("set_tfield(a,[abc])", Box::new(move |a| Op::SetTfield(a, vec![abc()]))),
            ("set_tfield(k0,[a])", Box::new(|a| Op::SetTfield(b"k0".to_vec(), vec![a]))),
            ("set_tfield(k0,[abc,a])", Box::new(move |a| Op::SetTfield(b"k0".to_vec(), vec![abc(), a]))),
            ("remove_tfield", Box::new(Op::RemoveTfield)),
            ("add_tag", Box::new(Op::AddTag)),
            ("remove_tag", Box::new(Op::RemoveTag)),
            ("keyword?", Box::new(Op::QKeyword)),
            ("has_attribute?", Box::new(Op::QHasAttribute)),
            ("tfield?", Box::new(Op::QTfield)),
            ("has_tag?", Box::new(Op::QHasTag)),
            ("has_variant?", Box::new(Op::QHasVariant)),
        ];
        let starts = ["und", "en-Latn-US-macos-valencia-u-foo-ca-buddhist-nu-thai-t-de-k0-dvorak-x-priv-zz1"];
        let mut prepared: Vec<(&str, Locale, Loc)> = vec![];
        for st in starts {
            match st.parse::<Locale>() {
                Ok(l) => {
                    let m = obs_loc(&l);
                    prepared.push((st, l, m));
                }
                Err(_) => ctx.count("setup: start value rejected by the library (argument sweep skipped for it)"),
            }
        }
        let (mut n_ok, mut n_err, mut n_steps) = (0u64, 0u64, 0u64);
        for (ai, a) in args.iter().enumerate() {
            if ai % ctx.nshards != ctx.shard {
                continue;
            }
            for (kname, mk) in kinds.iter() {
                let op = mk(a.clone());
                for (st, l0, m0) in prepared.iter() {
                    let (mut l, mut m) = (l0.clone(), m0.clone());
                    mon::begin_case(a);
                    let (ret, fails) = model::step(&mut l, &mut m, &op, Some(&likely));
                    n_steps += 1;
                    match ret {
                        model::Ret::Err => n_err += 1,
                        _ => n_ok += 1,
                    }
                    if a.len() <= 3 || !matches!(ret, model::Ret::Err) {
                        ctx.sig(SigH::new(0x10a).b(kname.as_bytes()).u(ret.kind_id()).u(crate::refspec::class_seq_hash(0, a, 0)).fin());
                    }
                    if let Some(f) = fails.first() {
                        report_history(ctx, st, std::slice::from_ref(&op), f, Some(&likely));
                    }
                }
            }
        }
        ctx.evals += n_steps;
        ctx.count_n("argument-sweep: one-step histories", n_steps);
        ctx.count_n("argument-sweep: call returned an error", n_err);
        ctx.count_n("argument-sweep: call accepted the argument", n_ok);
        ctx.extra.insert("argument_sweep".into(), json!({"arguments": args.len(), "operation_kinds": kinds.len(), "start_values": starts.len()}));
    }
    mon::idle();
    ctx.extra.insert(
        "workload".into(),
        json!(format!(
            "exhaustive: every history of length <= {} over a {}-operation alphabet (valid, boundary and invalid arguments) from {} start values{}; random: {} histories of 30-300 operations with arguments from valid/boundary/invalid pools; argument sweep: every argument-taking operation as a one-step history with every byte string of length 0-2, boundary-byte strings of length 3{}, and every single-byte substitution of a valid word of every class; after every step: return value vs model, error => unchanged, every getter, is_empty, has_*, ExactSizeIterator len, to_string vs model canonical form, re-parse, single representation",
            if quick { 3 } else { 4 },
            k,
            model::START_VALUES.len(),
            if quick { "" } else { " (length 4 from the first 5 start values, 3 from the rest)" },
            n * ctx.nshards as u64,
            if quick { "" } else { " and 4" }
        )),
    );
    ctx.extra.insert("floors".into(), json!({"step:returned-error": 1000, "step:returned-ok": 10000}));
}

/// Small C10 workload for the UB interpreter: random histories in lock step with the model (no
/// likely-subtags data: parsing 300 KB of JSON inside Miri would dominate; maximize/minimize steps
/// are executed - they reach the unsafe table lookups - and judged on bool/variants/re-parse only).
pub fn run_c10_miri(ctx: &mut Ctx) {
    let n = if ctx.quick() { 2u64 } else { 6 };
    let mut r = Rng::new(mix(&[ctx.seed, ctx.shard as u64, 0xC10A]));
    for _ in 0..n {
        ctx.rng_state = Some(r.state());
        let start = *r.pick(model::START_VALUES);
        let len = 12 + r.below(14);
        let ops: Vec<Op> = model::random_history(&mut r, len);
        let Ok(mut l) = start.parse::<Locale>() else { continue };
        let mut m = obs_loc(&l);
        ctx.count("random_histories");
        for (i, op) in ops.iter().enumerate() {
            let (ret, fails) = model::step(&mut l, &mut m, op, None);
            ctx.evals += 1;
            ctx.sig(SigH::new(10).u(kind_hash(op)).u(ret.kind_id()).u(shape_sig(&m)).fin());
            match ret {
                model::Ret::Err => ctx.count("step:returned-error"),
                _ => ctx.count("step:returned-ok"),
            }
            if let Some(f) = fails.first() {
                report_history(ctx, start, &ops[..=i], f, None);
                break;
            }
        }
    }
    ctx.rng_state = None;
}

// ------------------------------------------------------------------ value manufacture (C04, C05, C12, C17, C19)

/// A Locale reached by one of several routes of the safe API, together with a description.
pub fn gen_value(r: &mut Rng) -> (Locale, &'static str, Value) {
    match r.below(5) {
        0 => {
            let sl = gen::gen_sloc(r, true, true);
            let b = gen::render_random(&sl.tokens(), r);
            match Locale::from_bytes(&b) {
                Ok(l) => (l, "parse", json!(String::from_utf8_lossy(&b))),
                Err(_) => (Locale::default(), "default", json!(null)),
            }
        }
        1 => {
            // from_parts over arbitrary valid subtags + extension string
            let id = gen::gen_sid(r, true);
            let lang: Language = id.lang.parse().unwrap_or_default();
            let script: Option<Script> = id.script.as_ref().and_then(|s| s.parse().ok());
            let region: Option<Region> = id.region.as_ref().and_then(|s| s.parse().ok());
            let vars: Vec<Variant> = id.variants.iter().filter_map(|v| v.parse().ok()).collect();
            let mut sl = gen::gen_sloc(r, true, true);
            sl.id = Default::default();
            let mut toks = vec![];
            if sl.u_first {
                sl.u_tokens(&mut toks);
                sl.t_tokens(&mut toks);
            } else {
                sl.t_tokens(&mut toks);
                sl.u_tokens(&mut toks);
            }
            if let Some(x) = &sl.x {
                toks.push("x".into());
                toks.extend(x.iter().cloned());
            }
            let es = toks.join("-");
            let ext: Option<ExtensionsMap> = if toks.is_empty() { None } else { es.parse().ok() };
            (Locale::from_parts(lang, script, region, &vars, ext), "from_parts", json!({"id": id.lang, "variants": id.variants, "extensions": es}))
        }
        2 | 3 => {
            let start = *r.pick(model::START_VALUES);
            let (start, mut l) = match start.parse::<Locale>() {
                Ok(l) => (start, l),
                Err(_) => ("und", Locale::default()),
            };
            let n = 1 + r.below(25);
            let ops: Vec<Op> = model::random_history(r, n);
            for op in &ops {
                let _ = guard(|| model::apply_lib(&mut l, op));
            }
            (l, "history", model::history_json(start, &ops))
        }
        _ => {
            // default + field assignment
            let mut l = Locale::default();
            let id = gen::gen_sid(r, false);
            l.id.language = id.lang.parse().unwrap_or_default();
            l.id.script = id.script.as_ref().and_then(|s| s.parse().ok());
            l.id.region = id.region.as_ref().and_then(|s| s.parse().ok());
            let vars: Vec<Variant> = id.variants.iter().filter_map(|v| v.parse().ok()).collect();
            if r.chance(1, 2) {
                l.id.set_variants(&vars);
            }
            (l, "fields", json!({"lang": id.lang, "script": id.script, "region": id.region, "variants": id.variants}))
        }
    }
}

/// One history step on the library value, followed by the value checks. `None` when the call panicked.
fn apply_checked(l: &mut Locale, op: &Op, check: fn(&str, &Locale) -> Vec<Fail>) -> Option<Vec<Fail>> {
    // a copy made with Clone::clone_from / clone is the same value: its serialisation is the original's
    let before_clone = if matches!(op, Op::CloneOnto(_)) { Some(l.to_string()) } else { None };
    if guard(|| model::apply_lib(l, op)).is_err() {
        return None;
    }
    let mut fails = check("value after history", l);
    if let Some(b) = before_clone {
        let after = l.to_string();
        if after != b {
            fails.insert(0, fail("copy-serialises-differently", format!("a value that prints {:?} was copied onto a populated value with clone_from / clone; the copy prints {:?}", b, after)));
        }
    }
    Some(fails)
}

fn run_values(ctx: &mut Ctx, tag: u64, n_hist: u64, n_other: u64, check: fn(&str, &Locale) -> Vec<Fail>) {
    let mut r = Rng::new(mix(&[ctx.seed, ctx.shard as u64, tag]));
    // (a) every intermediate value of random histories
    for _ in 0..n_hist / ctx.nshards as u64 {
        ctx.rng_state = Some(r.state());
        let start = *r.pick(model::START_VALUES);
        let len = 10 + r.below(120);
        let ops: Vec<Op> = model::random_history(&mut r, len);
        let Ok(mut l) = start.parse::<Locale>() else {
            ctx.count("setup: start value rejected by the library (history skipped)");
            continue;
        };
        ctx.count("histories");
        for (i, op) in ops.iter().enumerate() {
            mon::begin_case(op.kind().as_bytes());
            let Some(fails) = apply_checked(&mut l, op, check) else { break };
            ctx.evals += 1;
            ctx.count("value:after-history-step");
            if matches!(op, Op::CloneOnto(_)) {
                ctx.count("value:copied onto a populated value (clone_from)");
            }
            ctx.sig(SigH::new(tag).b(l.to_string().as_bytes()).fin());
            if let Some(f) = fails.first() {
                ctx.viol_total += 1;
                ctx.count_dyn(&format!("violation:{}", f.clause));
                if ctx.may_minimise(&f.clause) {
                    let clause = f.clause.clone();
                    let bad = |c: &[Op]| -> bool {
                        let Ok(mut l) = start.parse::<Locale>() else { return false };
                        for op in c {
                            match apply_checked(&mut l, op, check) {
                                None => return false,
                                Some(fs) => {
                                    if fs.iter().any(|g| g.clause == clause) {
                                        return true;
                                    }
                                }
                            }
                        }
                        false
                    };
                    let min = mon::shrink_list(&ops[..=i], &mut { bad });
                    ctx.add_violation(&clause, model::history_json(start, &min), model::history_json(start, &ops[..=i]), f.detail.clone());
                }
                break;
            }
        }
    }
    // (b) values from the other routes
    for _ in 0..n_other / ctx.nshards as u64 {
        ctx.rng_state = Some(r.state());
        let (l, route, desc) = gen_value(&mut r);
        mon::begin_case(route.as_bytes());
        ctx.evals += 1;
        ctx.count(match route {
            "parse" => "value:parse",
            "from_parts" => "value:from_parts",
            "history" => "value:history",
            "fields" => "value:field-assignment",
            _ => "value:default",
        });
        ctx.sig(SigH::new(tag).b(l.to_string().as_bytes()).fin());
        if ctx.wants_sample(route) {
            ctx.sample(route, || json!({"route": route, "built_from": desc, "to_string": l.to_string()}));
        }
        for f in check(route, &l) {
            ctx.viol_total += 1;
            ctx.count_dyn(&format!("violation:{}", f.clause));
            if ctx.may_minimise(&f.clause) {
                ctx.add_violation(&f.clause, json!({"route": route, "built_from": desc}), json!(null), f.detail);
            }
        }
    }
    ctx.rng_state = None;
    mon::idle();
    // (c) values that only maximize / minimize can produce: every CLDR likely-subtags key (and its
    // value) pushed through LanguageIdentifier::maximize and ::minimize, as an id and as a tlang -
    // the subtags of those results come out of the compiled tables through the unchecked constructors
    #[cfg(feature = "likely")]
    if let Ok(lk) = Likely::load() {
        for (i, (k, v)) in lk.entries.iter().enumerate() {
            if i % ctx.nshards != ctx.shard {
                continue;
            }
            for src in [k, v] {
                let Ok(li) = src.parse::<LanguageIdentifier>() else { continue };
                let mut mx = li.clone();
                let mut mn = li.clone();
                // a panic inside the likely-subtags code is C01's (and C06's) finding; here the value is skipped
                if guard(|| { mx.maximize(); mn.minimize(); }).is_err() {
                    ctx.count("setup: maximize/minimize panicked (value skipped)");
                    continue;
                }
                for (route, x) in [("maximize(cldr key)", mx), ("minimize(cldr key)", mn)] {
                    mon::begin_case(src.as_bytes());
                    ctx.evals += 1;
                    ctx.count("value:likely-subtags-result");
                    let mut l = Locale::from(x.clone());
                    if i % 2 == 1 {
                        l.extensions.transform.set_tlang(x.clone()).ok();
                        let _ = l.extensions.unicode.set_keyword("ca", &["buddhist"]);
                    }
                    ctx.sig(SigH::new(tag).b(l.to_string().as_bytes()).fin());
                    for f in check(route, &l) {
                        ctx.viol_total += 1;
                        ctx.count_dyn(&format!("violation:{}", f.clause));
                        if ctx.may_minimise(&f.clause) {
                            ctx.add_violation(&f.clause, json!({"route": route, "built_from": src}), json!(null), f.detail);
                        }
                    }
                }
            }
        }
        mon::idle();
    }
}

fn c04_value(what: &str, l: &Locale) -> Vec<Fail> {
    let mut out = parse::c04_check_locale_value(what, l);
    out.extend(parse::c04_check_langid_value(what, &l.id));
    if let Some(t) = l.extensions.transform.tlang() {
        out.extend(parse::c04_check_langid_value("tlang", t));
    }
    out
}

pub fn c04_replay_json(v: &Value) -> Vec<Fail> {
    replay_values(v, c04_value)
}
pub fn c05_replay_json(v: &Value) -> Vec<Fail> {
    replay_values(v, parse::c05_check_locale_value)
}

fn replay_values(v: &Value, check: fn(&str, &Locale) -> Vec<Fail>) -> Vec<Fail> {
    let h = if v.get("start").is_some() { Some(v) } else { v.get("built_from").filter(|b| b.get("start").is_some()) };
    if let Some((start, ops)) = h.and_then(model::history_from_json) {
        let mut l: Locale = match start.parse() {
            Ok(l) => l,
            Err(_) => return vec![fail("bad-replay", "start does not parse")],
        };
        let mut out = vec![];
        for op in &ops {
            match apply_checked(&mut l, op, check) {
                None => break,
                Some(fs) => out = fs,
            }
            if !out.is_empty() {
                return out;
            }
        }
        return out;
    }
    if let Some(s) = v.get("built_from").and_then(|b| b.as_str()) {
        if let Ok(l) = Locale::from_bytes(s.as_bytes()) {
            return check("parse", &l);
        }
    }
    vec![fail("bad-replay", "cannot rebuild the value from this witness (from_parts/field routes are replayed by re-running the check with the recorded seed)")]
}

pub fn run_c04(ctx: &mut Ctx) {
    let quick = ctx.quick();
    let cfg = StreamCfg::standard(quick);
    byte_stream(ctx, &cfg, &mut |ctx, b, src| {
        ctx.evals += 1;
        ctx.count(src.name());
        // judged call first (see run_c03): a statistics-only parse must not absorb state left by the previous input
        ctx.judge_bytes(b, &mut |c| parse::c04_check(c));
        if let Some(s) = mon::take_text() {
            ctx.count("value:parsed-locale");
            ctx.sig(SigH::new(4).b(s.as_bytes()).fin());
            if ctx.wants_sample("parsed") && s.len() > 12 {
                ctx.sample("parsed", || json!({"input": String::from_utf8_lossy(b), "to_string": s}));
            }
        }
    });
    run_values(ctx, 0xC04, if quick { 20_000 } else { 1_000_000 }, if quick { 200_000 } else { 10_000_000 }, c04_value);
    ctx.extra.insert("workload".into(), json!(format!("parsed values of [{}]; every intermediate value of random mutation histories; values built by from_parts, by field assignment, by parse", cfg.describe())));
    ctx.extra.insert("floors".into(), json!({"value:parsed-locale": 10000, "value:after-history-step": 10000, "value:from_parts": 1000}));
}

pub fn run_c05(ctx: &mut Ctx) {
    let quick = ctx.quick();
    let cfg = StreamCfg::standard(quick);
    byte_stream(ctx, &cfg, &mut |ctx, b, src| {
        ctx.evals += 1;
        ctx.count(src.name());
        // judged call first (see run_c03): a statistics-only parse must not absorb state left by the previous input
        ctx.judge_bytes(b, &mut |c| parse::c05_check(c));
        if let Some(s) = mon::take_text() {
            ctx.count("value:parsed-locale");
            if crate::refspec::n_subtags(s.as_bytes()) >= 2 {
                ctx.sig(SigH::new(5).b(s.as_bytes()).fin());
            }
            if ctx.wants_sample("parsed") && s.len() > 12 {
                ctx.sample("parsed", || json!({"input": String::from_utf8_lossy(b), "to_string": s}));
            }
        }
    });
    run_values(ctx, 0xC05, if quick { 20_000 } else { 1_000_000 }, if quick { 200_000 } else { 10_000_000 }, parse::c05_check_locale_value);
    // every valid subtag text of the C15 pools round-trips on its own
    ctx.extra.insert("workload".into(), json!(format!("parsed values of [{}]; every intermediate value of random mutation histories; values built by from_parts / field assignment; Locale, ExtensionsMap, LanguageIdentifier (id and tlang), Language, Script, Region, Variant each re-parsed from its own to_string()", cfg.describe())));
    ctx.extra.insert("floors".into(), json!({"value:parsed-locale": 10000, "value:after-history-step": 10000, "value:from_parts": 1000}));
}

#[allow(dead_code)]
pub fn langid_from(l: &Locale) -> LanguageIdentifier {
    l.id.clone()
}
