//! vmon library: generators, independent oracles and monitors. The `vmon` binary (main.rs)
//! runs them as sharded workloads; the fuzz targets under /verif/fuzz drive the same per-input
//! monitors from libFuzzer.
#![allow(dead_code)]
pub mod engines;
pub mod gen;
#[cfg(feature = "hooks")]
pub mod hooktab;
pub mod lexicon;
pub mod likely;
pub mod model;
pub mod mon;
pub mod obs;
pub mod refspec;
pub mod rng;
pub mod stream;
