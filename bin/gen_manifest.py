#!/usr/bin/env python3
"""Regenerates /verif/MANIFEST.json from the table below (kept in one place so that the
manifest, the driver and DESIGN.md do not drift). Run after registering a new check."""
import json
import os
import subprocess

VERIF = os.path.dirname(os.path.dirname(os.path.abspath(__file__)))

TRUST = ("Trusted: the independent oracle in harness/src/refspec.rs (written from the property statement and UTS #35, "
         "no code shared with /repo), rustc/cargo, and that the harness is rebuilt against /repo's working tree. "
         "Assurance is about the executions observed; nothing is proved.")

# id -> (technique, level text, design_ref, note)
CHECKS = {
    "C02": ("reference-model monitor (independent UTS #35 recogniser) over bounded-exhaustive + random + mutated inputs",
            "Every input of the stream is parsed by LanguageIdentifier::from_bytes/from_str/canonicalize/parse_language_identifier and "
            "compared with an independent recogniser+canonicaliser: accept/reject, error kind, every field, to_string(). Exhaustive over "
            "all token sequences up to 4 (quick) / 5 (thorough) subtags of a 41-token boundary-class alphabet, plus two further alphabets, "
            "random well-formed identifiers with random case/separators, 1-3 edit near misses and CLDR corpora.",
            "DESIGN.md section 5, C02", TRUST),
    "C03": ("three-zone reference-model monitor (must-accept with expected value / must-reject / either) over the same stream",
            "Each input is classified by an independent three-zone oracle that follows the statement's own latitude; must-accept inputs must "
            "parse to exactly the expected normalised subtags through every getter, must-reject inputs must return Err (a panic counts as a "
            "violation), either-zone inputs may be rejected or accepted with the value of the input minus the emptiness. Random well-formed "
            "locales additionally carry a by-construction expected value that cross-checks the oracle itself.",
            "DESIGN.md section 5, C03", TRUST),
    "C13": ("differential monitor between the two parsers and the conversions, on the shared stream",
            "Both parsers run on the same bytes; whenever LanguageIdentifier accepts, Locale must accept with equal id, no extensions and "
            "equal string; for well-formed locales the id must equal the LanguageIdentifier parsed from the prefix before the first "
            "singleton (a well-formed locale string that Locale rejects has no id and fails the clause); From/Into/AsRef conversions are checked on every accepted Locale. "
            "No external oracle except the zone classifier that says which strings are well-formed locales.",
            "DESIGN.md section 5, C13", TRUST),
    "C04": ("output monitor: independent canonicaliser over the observed getters + strict recogniser, on parsed and manufactured values",
            "Every value reached by parsing the shared stream, by random mutation histories (every intermediate value), by from_parts and by field "
            "assignment is serialised; the string must use only [A-Za-z0-9-], have no empty subtag, equal the independent canonicaliser applied to "
            "what the getters return, and be a fixed point of the independent recogniser+canonicaliser (case per position, sorted unique variants and "
            "attributes, t-u-x order, key-sorted maps, no 'true', nothing for an empty extension). canonicalize(s) must equal parse(s).to_string() and "
            "not be longer than s.",
            "DESIGN.md section 5, C04", TRUST),
    "C05": ("round-trip monitor using the library's own equality, on parsed and manufactured values",
            "For every reachable value of the seven types (as in C04) parse(x.to_string()) must succeed and == x; canonicalize must be idempotent. "
            "Values that the parser would never produce directly (tfields together with -u-/-x-, tlang set from any id, valueless keys) are "
            "manufactured by mutation histories and from_parts.",
            "DESIGN.md section 5, C05", TRUST),
    "C09": ("metamorphic monitor: (input, transformed input) pairs, no reference implementation",
            "Case masks and '-'/'_' masks are applied to every input of the shared stream (so ill-formed inputs must stay rejected), and "
            "structure-aware transformations (permute/duplicate variants and attributes, permute keywords and tfields with distinct keys, swap the "
            "u and t blocks) to random well-formed locales, a third of them with the same fault injected into both members. Both parse results must "
            "fail together or be == with identical to_string().",
            "DESIGN.md section 5, C09", TRUST),
    "C10": ("lock-step reference-model monitor over operation histories (exhaustive short, random long)",
            "Every public mutator/getter call of a history is mirrored on a model made of sorted sets, a sorted multiset and ordered maps. After "
            "every step: return value, error => value unchanged, every getter, is_empty, has_*, iterator lengths, to_string, re-parse and "
            "single-representation are compared. Exhaustive over all histories of length <= 3 (quick) / 4 (thorough) on a 64-operation alphabet "
            "from 21 start values; random histories of 30-300 operations with valid, boundary and invalid arguments that share arguments between operations, "
            "including copies onto populated values with Clone::clone_from; an argument sweep gives every argument-taking operation every byte string of "
            "length 0-2, boundary-byte strings of length 3 (thorough 4), every single-byte substitution of valid words and compound arguments, as one-step histories.",
            "DESIGN.md section 5, C10", TRUST),
    "C15": ("reference-model monitor (byte-level production predicates) over exhaustive short and boundary-class byte strings",
            "All 16.8 million byte strings of length 0-3, all strings of length 4-6 (quick) / 4-7 (thorough) over 19 boundary bytes, length 8-9 over "
            "8 bytes, every single-byte substitution of 28 valid subtags and random strings are given to Language/Script/Region/Variant "
            "from_bytes, from_str (and Language::try_from); accept/reject must equal the production, and as_str, Display, == &str, "
            "<&str>::from and is_empty must expose the expected case-folded text; the constructors are compared as values (not only by their text); == with strings that alias "
            "the subtag's own storage; 'und' handling through default(), clear(), try_from(None).",
            "DESIGN.md section 5, C15", TRUST),
    "C06": ("reference-model monitor (dictionary built from likelySubtags.json, acceptable-answer sets) + Miri on the unsafe lookups",
            "All 8218 CLDR entries are looked up (exhaustive in both tiers) and must give exactly the CLDR value through likelysubtags::maximize and "
            "LanguageIdentifier::maximize. Every (language, script, region) of the CLDR subtag universe plus unknown representatives (thorough: all 3.2e8; "
            "quick: all CLDR-related pairs per language + 1/64 stratified grid sample) must give an answer inside the acceptable set of the statement's "
            "lookup cascade (the UTS #35 fallbacks are accepted only where the statement grants latitude); every query is asked again with the language built by the "
            "other public constructors; exhaustive single-subtag spaces (every 4-letter script, every region, every 2-3 letter language in fixed contexts). Table keys are also run under Miri "
            "(six unsafe lookups).",
            "DESIGN.md section 5, C06", TRUST + " The JSON data files are ground truth by the property's own wording."),
    "C07": ("algebraic-law monitor on maximize over the triple universe (no reference data)",
            "For every triple as in C06: given subtags unchanged, all three present after a change, bool <=> changed, None/false => unchanged, "
            "idempotent; with variant lists and extension sets attached on a sample (variants and every extension untouched, Locale.id.maximize()).",
            "DESIGN.md section 5, C07", TRUST),
    "C08": ("algebraic-law monitor on minimize + comparison with the reference minimisation of the dictionary oracle",
            "For every triple as in C06: the result maximizes to the same triple, uses no foreign subtag, has no more script/region subtags, is the "
            "first of {l, l-r, l-s} that maximizes back, minimize(maximize(x)) == minimize(x), idempotent, false => unchanged, variants/extensions "
            "untouched; additionally equal to an independent reference minimisation.",
            "DESIGN.md section 5, C08", TRUST),
    "C14": ("reference-model monitor (sets derived from the CLDR layout files) in two build configurations of the same harness",
            "The harness is built with and without the library's likelysubtags feature. In both builds every identifier of the workload (710 CLDR "
            "layout locales exhaustively; triples as in C06; x 3 variant lists) is judged on exactly the clauses of the statement plus, with the feature on, "
            "the likely-script refinement for script-less identifiers of right-to-left-listed languages (model derived from likelySubtags.json, as the "
            "quantifier says); answers the statement leaves open are counted unconstrained, not judged.",
            "DESIGN.md section 5, C14", TRUST + " The layout JSON files are ground truth by the property's own wording."),
    "C18": ("invariant walker over the compiled statics (cfg hook) + Miri on every stored integer + re-run of the repository's generators",
            "All 8219 likely-subtags rows and 50 direction rows: strictly increasing in one of the two integer key orders a binary search over packed keys can use "
            "(stored integer or byte-swapped integer) and every row found by the library's own lookup when asked for exactly its key, every stored integer "
            "decodes to a well-formed correctly cased subtag with zero padding only at the top and reads back through the unchecked constructor "
            "(natively and under Miri), the multiset of rows equals an independent re-derivation from likelySubtags.json, direction tables equal the "
            "sets derivable from the layout files, CLDR_VERSION equals the data's; both generators are re-run in three build configurations (release, dev, "
            "release with all features) and compared token-wise with the checked-in files. The tables are read through a width-agnostic module, so a change of their "
            "integer types is judged rather than breaking the build.",
            "DESIGN.md section 5, C18", TRUST + " Hook: cfg(unic_locale_verif) read-only re-export."),
    "C01": ("panic / CPU-time / exit-status monitor over every text-accepting entry point; Miri + AddressSanitizer in the thorough tier",
            "22 groups of public entry points (both parsers by bytes/str/canonicalize, the doc-hidden iterator entry points try_from_iter / parse_language_identifier_from_iter under four tokenisations, the four subtag types, ExtensionsMap, every extension getter/setter with the "
            "input as key, value, attribute or tag, serde deserialisation, and to_string/direction/maximize/minimize on every parsed value) are called under "
            "catch_unwind with a recording panic hook; a watchdog thread decides 'hang' on the worker thread's CPU time inside one case (> 20 CPU-s), the driver "
            "observes aborts / stack overflows as the worker's exit status. Inputs: bounded-exhaustive token sequences, random/mutated/corpus strings, non-UTF-8, NUL, "
            "1 MB inputs, 200k-subtag inputs; likely-subtags and direction queries over the triple universe. Thorough also runs under Miri and ASan.",
            "DESIGN.md section 5, C01", TRUST),
    "C11": ("reference-formula monitor + derived laws, exhaustive over a product domain",
            "matches() of LanguageIdentifier, Locale and Language is compared with the wildcard formula evaluated on the observed fields for all 46 656 "
            "(a, b, flags) of the product domain (exhaustive) with and without extensions, and on random related pairs; both-false <=> ==, swap symmetry, reflexivity, "
            "monotonicity in each flag, private tags force false, LanguageIdentifier-vs-Locale operands; operands rebuilt along every construction route, every registry "
            "keyword / tfield / attribute as sole extension content, all pairs of real-world languages, likely-subtags results as operands.",
            "DESIGN.md section 5, C11", TRUST),
    "C12": ("pairwise relation checker over a pool of values reached by different routes",
            "All ordered pairs of a pool (3000 quick / 25000 thorough values, each logical value reached along 5 routes): == <=> equal to_string(), equal => same "
            "hash and cmp Equal, antisymmetry, cmp of ids == field-by-field key with absent first, Locale order has the id as major key, pool sorted by Ord is "
            "sorted by the key and transitive; the same relations for ExtensionsMap and its three lists as values of their own and for all ordered pairs of the pool's "
            "distinct subtags reached by three routes; == &str true iff canonical text (longer, shorter, re-cased, extended candidates), for LanguageIdentifier and the four subtag types.",
            "DESIGN.md section 5, C12", TRUST),
    "C17": ("round-trip + injectivity monitor; the raw (unsafe) round trips also under Miri (both tiers) and ASan (thorough)",
            "from_parts(into_parts(x)) == x for reachable LanguageIdentifier/Locale values (extension string re-parsed), from_raw_parts_unchecked of both types, every "
            "permutation/duplication of <= 4 variants equals parsing the joined string, subtag -> integer -> from_raw_unchecked is the identity with the "
            "little-endian text intact; exhaustive over all 26^4 scripts, all regions, all 2-3 letter languages with injectivity counts.",
            "DESIGN.md section 5, C17", TRUST),
    "C19": ("round-trip + differential monitor (serde_json vs FromStr) on the shared stream and reachable values",
            "Serialisation must be exactly the JSON string of to_string(); deserialising that yields an equal value; for every UTF-8 input of the stream, "
            "deserialising it from three JSON renderings (plain, fully \\u-escaped, mixed), from serde_json::Value, from bytes and from a reader, as an array element, an "
            "Option and a JSON object key, and through serde's own value deserializers (the visit_str, visit_string and visit_borrowed_str routes) succeeds iff parsing "
            "succeeds, with equal values; as a map key and container element it serialises to the same canonical text; 18 non-string JSON documents (incl. 200-deep "
            "nesting) and 8 non-string value deserializers must give Err without panicking.",
            "DESIGN.md section 5, C19", TRUST),
    "C16": ("compiler-diagnostic monitor + offline event-log checker over generated crates of macro invocations",
            "A positive crate (one invocation per line on well-formed literals for all nine macros) must build with zero errors; the built program logs one "
            "record per invocation (value, == and Debug-equality with run-time parsing, catch_unwind status) and the offline checker requires every invocation "
            "exactly once, equal, not panicked. A negative crate interleaves ill-formed literals with well-formed control lines: each ill-formed line must carry a "
            "rustc error located at that line (resolved through the expansion span chain), no control line may. Literals come from the oracle's definite zones. "
            "Thorough: ~4000 invocations and the positive program again under Miri.",
            "DESIGN.md section 5, C16", TRUST + " rustc's JSON diagnostics are trusted to locate errors."),
    "C20": ("offline transcript comparison across feature configurations of one probe program",
            "A probe using only always-available API is built once per feature configuration (impl crates: 4; facades: quick 8 / thorough 14) and executes the "
            "same seeded script of ~218k (quick) / ~1.2M (thorough) parse, history and comparison lines; every transcript must be byte-identical outside the "
            "character_direction column; that column must be identical among builds with the same likelysubtags setting and may differ across only for "
            "script-less identifiers.",
            "DESIGN.md section 5, C20", TRUST),
}

FUZZED = {"C01", "C02", "C03", "C04", "C05", "C09", "C10", "C13", "C15", "C19"}
HISTORY = {"C01", "C06", "C07", "C08", "C14"}
ECHO = {"C01", "C02", "C03", "C04", "C05", "C09", "C13", "C19", "C20"}
MEMCHECK = {"C01", "C06", "C10", "C17", "C18"}

REASON_PENDING = "check not built yet in this round; design in DESIGN.md section 5"


def main():
    props = [json.loads(l) for l in open(os.path.join(VERIF, "properties.jsonl"))]
    hook_commits = []
    try:
        out = subprocess.run(["git", "-C", "/repo", "log", "--format=%H %s"], capture_output=True, text=True).stdout
        hook_commits = [l.split()[0] for l in out.splitlines() if "verif hook" in l]
    except Exception:
        pass
    checks = []
    na = []
    for p in props:
        pid = p["id"]
        if pid in CHECKS:
            tech, text, ref, note = CHECKS[pid]
            if pid in FUZZED:
                tech += "; thorough tier adds a coverage-guided libFuzzer workload under AddressSanitizer driving the same monitor"
                text += (" Thorough additionally: 16 libFuzzer processes (SanitizerCoverage feedback, ASan, seeded corpus + dictionary, bounded by -runs) "
                         "drive the same per-input monitor; recorded failures are confirmed and minimised on the release build.")
            if pid not in ("C16", "C20"):
                text += (" Every workload runs on three builds of the harness: with debug assertions and overflow checks on (debug_assert!, arithmetic "
                         "overflow, cfg(debug_assertions) paths), with both off (the profile users ship; cfg(not(debug_assertions)) paths), and with "
                         "default-features = false on both library crates (what a downstream user of `default-features = false` links; a feature that is on "
                         "by default in one crate and off in the other is only reachable there).")
            if pid == "C16":
                text += " The positive program is built and run in the dev profile and in a release profile without debug assertions."
            if pid in MEMCHECK:
                tech += "; thorough tier re-runs a slice of the workload under valgrind memcheck (uninitialised-value use, invalid accesses, definite leaks)"
                text += (" Thorough additionally: the release build of the same engine under valgrind memcheck (16 processes on a slice of the quick workload); "
                         "a memcheck report is a violation.")
            if pid in HISTORY:
                text += (" History phase: per language the related queries are re-asked in several random orders (pure functions must not "
                         "depend on the call history), each call judged by the same oracle.")
            if pid in ECHO:
                text += " Random phases re-issue inputs directly after themselves or after one other call (history independence)."
            checks.append({
                "property_id": pid,
                "quick_cmd": "bin/check run %s --tier quick" % pid,
                "thorough_cmd": "bin/check run %s --tier thorough" % pid,
                "evidence_file": "/verif/evidence/%s.json" % pid,
                "replay_cmd_template": "bin/check replay {path}",
                "engine": "vmon:" + pid.lower(),
                "level_claimed": {"category": "exploration", "text": text, "design_ref": ref},
                "level_note": note,
                "technique": "runtime monitoring: " + tech,
            })
        else:
            na.append({"property_id": pid, "reason": REASON_PENDING})
    m = {
        "version": 1,
        "setup_cmd": "bin/check setup",
        "hooks": {
            "guard": "--cfg unic_locale_verif",
            "enable": "RUSTFLAGS / harness/.cargo/config.toml build.rustflags = [\"--cfg\", \"unic_locale_verif\"]; "
                      "exposes unic_langid_impl::verif_hooks (read-only re-export of the likely-subtags and layout tables)",
            "baseline_off_cmd": "cd /repo && cargo test --workspace --no-fail-fast --offline",
            "source_commits": hook_commits,
            "add_only": True,
        },
        "engines": [
            {"name": "vmon", "path": "harness/", "serves_properties": sorted(CHECKS),
             "kind_free_text": "Rust harness linked against /repo's crates: generators, independent oracles, monitors (one sub-command per property)"},
            {"name": "check", "path": "bin/check", "serves_properties": sorted(CHECKS),
             "kind_free_text": "python3 driver: builds, shards workers over 16 processes, merges, known findings, evidence, VIOLATION lines, replay"},
        ],
        "checks": checks,
        "not_applicable": na,
        "notes": "Technique family: runtime monitoring and sanitizers. Exit status 0 held / 1 violation / 2 inconclusive "
                 "(never on the unchanged tree). VERIF_SEED selects the random part of every workload; exhaustive parts do not depend on it.",
    }
    with open(os.path.join(VERIF, "MANIFEST.json"), "w") as f:
        json.dump(m, f, indent=1)
        f.write("\n")
    print("MANIFEST.json: %d checks, %d not_applicable" % (len(checks), len(na)))


if __name__ == "__main__":
    main()
