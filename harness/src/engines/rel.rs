//! C11 (matches) and C12 (Eq / Ord / Hash vs canonical string).

use crate::engines::hist::gen_value;
use crate::gen;
use crate::mon::{self, fail, guard, Ctx, Fail, SigH};
use crate::obs::obs_li;
use crate::refspec::LangId;
use crate::rng::{mix, Rng};
use serde_json::{json, Value};
use std::cmp::Ordering;
use std::collections::hash_map::DefaultHasher;
use std::hash::{Hash, Hasher};
use unic_langid_impl::subtags::{Language, Region, Script, Variant};

use unic_locale_impl::Locale;

// ------------------------------------------------------------------ C11

fn field(ra: bool, a_empty: bool, rb: bool, b_empty: bool, eq: bool) -> bool {
    (ra && a_empty) || (rb && b_empty) || eq
}

/// R-match: the wildcard formula evaluated on the observed fields.
pub fn r_match(a: &LangId, b: &LangId, ra: bool, rb: bool) -> bool {
    field(ra, a.lang == "und", rb, b.lang == "und", a.lang == b.lang)
        && field(ra, a.script.is_none(), rb, b.script.is_none(), a.script == b.script)
        && field(ra, a.region.is_none(), rb, b.region.is_none(), a.region == b.region)
        && field(ra, a.variants.is_empty(), rb, b.variants.is_empty(), a.variants == b.variants)
}

pub fn c11_check_pair(a: &Locale, b: &Locale) -> Vec<Fail> {
    let mut out = vec![];
    let (oa, ob) = (obs_li(&a.id), obs_li(&b.id));
    let name = format!("{} ~ {}", a, b);
    let priv_any = a.extensions.private.tags().len() > 0 || b.extensions.private.tags().len() > 0;
    let mut table = [[false; 2]; 2];
    for ra in [false, true] {
        for rb in [false, true] {
            let want = r_match(&oa, &ob, ra, rb);
            let got = match guard(|| a.id.matches(&b.id, ra, rb)) {
                Ok(g) => g,
                Err(p) => {
                    out.push(fail("panic", p));
                    continue;
                }
            };
            table[ra as usize][rb as usize] = got;
            if got != want {
                out.push(fail("langid-formula", format!("{}.matches({}, {}, {}) = {}, wildcard formula gives {}", a.id, b.id, ra, rb, got, want)));
            }
            // swap symmetry
            if b.id.matches(&a.id, rb, ra) != got {
                out.push(fail("swap-symmetry", format!("{} flags ({}, {}): a.matches(b) = {}, b.matches(a) with swapped flags differs", name, ra, rb, got)));
            }
            // Locale level
            let lw = if priv_any { false } else { want };
            match guard(|| a.matches(b, ra, rb)) {
                Ok(g) if g == lw => {}
                Ok(g) => out.push(fail("locale-formula", format!("Locale {} flags ({}, {}) = {}, expected {} (private tags on either side: {})", name, ra, rb, g, lw, priv_any))),
                Err(p) => out.push(fail("panic", p)),
            }
            // a LanguageIdentifier against a Locale's id directly
            if a.id.matches(b, ra, rb) != got {
                out.push(fail("langid-vs-locale", format!("{}.matches(&Locale {}) differs from matching its id", a.id, b)));
            }
            // Language::matches
            let lg = a.id.language.matches(b.id.language, ra, rb);
            let lwant = field(ra, oa.lang == "und", rb, ob.lang == "und", oa.lang == ob.lang);
            if lg != lwant {
                out.push(fail("language-formula", format!("Language {}.matches({}, {}, {}) = {}, expected {}", oa.lang, ob.lang, ra, rb, lg, lwant)));
            }
        }
    }
    if table[0][0] != (a.id == b.id) {
        out.push(fail("both-false-is-equality", format!("{}: matches(false,false) = {}, == is {}", name, table[0][0], a.id == b.id)));
    }
    // monotone in each flag
    if (table[0][0] && !(table[1][0] && table[0][1])) || ((table[1][0] || table[0][1]) && !table[1][1]) {
        out.push(fail("monotone", format!("{}: switching a flag on turned a match into a mismatch: {:?}", name, table)));
    }
    // reflexive
    for ra in [false, true] {
        for rb in [false, true] {
            if !a.id.matches(&a.id, ra, rb) {
                out.push(fail("reflexive", format!("{} does not match itself with flags ({}, {})", a.id, ra, rb)));
            }
        }
    }
    out
}

pub fn c11_replay(v: &Value) -> Vec<Fail> {
    let (Some(a), Some(b)) = (v["a"].as_str(), v["b"].as_str()) else {
        return vec![fail("bad-replay", "need a and b")];
    };
    match (a.parse::<Locale>(), b.parse::<Locale>()) {
        (Ok(a), Ok(b)) => {
            // operands that were built along a named construction route are rebuilt along it
            let a = match v["route_a"].as_u64() {
                Some(k) => reroute_k(&a, k as usize).0,
                None => a,
            };
            let b = match v["route_b"].as_u64() {
                Some(k) => reroute_k(&b, k as usize).0,
                None => b,
            };
            c11_check_pair(&a, &b)
        }
        _ => vec![fail("bad-replay", "operands do not parse")],
    }
}

thread_local! {
    /// construction routes of the operands being judged (0 = as parsed, k + 1 = route k), for the witness
    static ROUTE_CTX: std::cell::Cell<(usize, usize)> = std::cell::Cell::new((0, 0));
}

fn judge_pair(ctx: &mut Ctx, a: &Locale, b: &Locale) {
    ctx.evals += 4;
    let (oa, ob) = (obs_li(&a.id), obs_li(&b.id));
    let pat = |o: &LangId| (o.lang != "und") as u64 | (o.script.is_some() as u64) << 1 | (o.region.is_some() as u64) << 2 | (!o.variants.is_empty() as u64) << 3;
    for ra in [false, true] {
        for rb in [false, true] {
            let res = a.id.matches(&b.id, ra, rb);
            ctx.count(if res { "result:match" } else { "result:mismatch" });
            ctx.sig(
                SigH::new(11)
                    .u(pat(&oa))
                    .u(pat(&ob))
                    .u(ra as u64)
                    .u(rb as u64)
                    .u(res as u64)
                    .u(a.extensions.is_empty() as u64)
                    .u((a.extensions.private.tags().len() > 0 || b.extensions.private.tags().len() > 0) as u64)
                    .fin(),
            );
        }
    }
    let fails = c11_check_pair(a, b);
    for f in fails {
        ctx.viol_total += 1;
        ctx.count_dyn(&format!("violation:{}", f.clause));
        if ctx.may_minimise(&f.clause) {
            let (ka, kb) = ROUTE_CTX.with(|c| c.get());
            let mut w = json!({"a": a.to_string(), "b": b.to_string()});
            if ka > 0 {
                w["route_a"] = json!(ka - 1);
            }
            if kb > 0 {
                w["route_b"] = json!(kb - 1);
            }
            ctx.add_violation(&f.clause, w, json!(null), f.detail);
        }
    }
}

pub fn run_c11(ctx: &mut Ctx) {
    // exhaustive product domain
    let langs = ["und", "en", "de"];
    let scripts = [None, Some("Latn"), Some("Cyrl")];
    let regions = [None, Some("US"), Some("001")];
    let variants: [&[&str]; 4] = [&[], &["macos"], &["valencia"], &["macos", "valencia"]];
    let exts = ["", "-u-ca-buddhist", "-t-en-us-k0-dvorak", "-x-foo"];
    let mut ids: Vec<String> = vec![];
    for l in langs {
        for s in scripts {
            for r in regions {
                for v in variants {
                    let mut t = l.to_string();
                    if let Some(s) = s {
                        t.push('-');
                        t.push_str(s);
                    }
                    if let Some(r) = r {
                        t.push('-');
                        t.push_str(r);
                    }
                    for x in v {
                        t.push('-');
                        t.push_str(x);
                    }
                    ids.push(t);
                }
            }
        }
    }
    let mut unit = 0usize;
    for (i, a) in ids.iter().enumerate() {
        for b in ids.iter() {
            unit += 1;
            if unit % ctx.nshards != ctx.shard {
                continue;
            }
            mon::begin_case(a.as_bytes());
            // without extensions, and with one extension set on each side (rotating)
            let combos: [(usize, usize); 4] = [(0, 0), (1 + i % 2, 0), (0, 1 + unit % 3), (3, 2)];
            for (ea, eb) in combos {
                let (Ok(la), Ok(lb)) = (format!("{}{}", a, exts[ea]).parse::<Locale>(), format!("{}{}", b, exts[eb]).parse::<Locale>()) else {
                    ctx.count("setup: well-formed locale rejected by the library (pair skipped)");
                    continue;
                };
                ctx.count(if ea == 0 && eb == 0 { "product:plain" } else { "product:with-extensions" });
                if ctx.wants_sample("product") && la.id != lb.id && la.id.matches(&lb.id, true, false) {
                    ctx.sample("product", || json!({"a": la.to_string(), "b": lb.to_string(), "matches(true,false)": true}));
                }
                judge_pair(ctx, &la, &lb);
                if ea == 0 && eb == 0 {
                    // the same operands rebuilt through the unchecked constructor from their own parts
                    ctx.count_n("product:operand rebuilt by from_raw_parts_unchecked", 2);
                    judge_pair(ctx, &raw_route(&la), &lb);
                    judge_pair(ctx, &la, &raw_route(&lb));
                }
                // ... and along every other construction route (re-parse, from_parts with shuffled variants, default +
                // setters, set_variants(&[]), add-then-remove, clear + re-add): matches() reads the representation, and
                // two routes to one logical value need not leave the same representation behind
                {
                    let k = unit % N_ROUTES;
                    ROUTE_CTX.with(|c| c.set((k + 1, 0)));
                    judge_pair(ctx, &reroute_k(&la, k).0, &lb);
                    ROUTE_CTX.with(|c| c.set((0, (k + 3) % N_ROUTES + 1)));
                    judge_pair(ctx, &la, &reroute_k(&lb, (k + 3) % N_ROUTES).0);
                    ROUTE_CTX.with(|c| c.set((0, 0)));
                    ctx.count_n("product:operand rebuilt along another construction route", 2);
                }
            }
        }
    }
    // a second small product over near-neighbour subtags (numeric regions sharing digits, scripts and
    // languages differing in one letter, the "unknown" codes Zzzz / ZZ), all four flag pairs
    if ctx.shard == 0 {
        let nl = ["en", "em", "und"];
        let ns = [None, Some("Latn"), Some("Latm"), Some("Zzzz"), Some("Katn")];
        let nr = [None, Some("150"), Some("151"), Some("051"), Some("ZZ"), Some("US"), Some("UT")];
        let mut nids: Vec<String> = vec![];
        for l in nl {
            for sc in ns {
                for rg in nr {
                    let mut t = l.to_string();
                    if let Some(x) = sc {
                        t.push('-');
                        t.push_str(x);
                    }
                    if let Some(x) = rg {
                        t.push('-');
                        t.push_str(x);
                    }
                    nids.push(t);
                }
            }
        }
        for a in &nids {
            for b in &nids {
                let (Ok(la), Ok(lb)) = (a.parse::<Locale>(), b.parse::<Locale>()) else { continue };
                mon::begin_case(a.as_bytes());
                ctx.count("product:near-neighbours");
                judge_pair(ctx, &la, &lb);
            }
        }
    }
    // real-world vocabulary: every registry -u- keyword (key x type), -t- field (key x value) and attribute as the only
    // extension content of one operand (Locale::matches must ignore it whatever it says), against the bare identifier and
    // against the identifier that carries the same word as a variant; and every ordered pair of real-world languages
    {
        use crate::lexicon as lx;
        let mut unit2 = 0usize;
        let mut pair = |ctx: &mut Ctx, a: String, b: String| {
            unit2 += 1;
            if unit2 % ctx.nshards != ctx.shard {
                return;
            }
            let (Ok(la), Ok(lb)) = (a.parse::<Locale>(), b.parse::<Locale>()) else { return };
            mon::begin_case(a.as_bytes());
            ctx.count("lexicon:pairs");
            judge_pair(ctx, &la, &lb);
        };
        for k in lx::UKEYS {
            for t in lx::UTYPES {
                if !(crate::refspec::is_ukey(k.as_bytes()) && (3..=8).contains(&t.len())) {
                    continue;
                }
                pair(ctx, format!("en-US-u-{}-{}", k, t), "en-US".into());
                if crate::refspec::is_variant(t.as_bytes()) {
                    pair(ctx, format!("en-US-u-{}-{}", k, t), format!("en-US-{}", t));
                    pair(ctx, format!("en-US-{}", t), format!("en-US-u-{}-{}", k, t));
                }
            }
        }
        for k in lx::TKEYS {
            for t in lx::TVALUES {
                if (3..=8).contains(&t.len()) {
                    pair(ctx, format!("de-t-{}-{}", k, t), "de".into());
                    pair(ctx, "de-AT".into(), format!("de-t-de-AT-{}-{}", k, t));
                }
            }
        }
        for t in lx::UTYPES {
            if (3..=8).contains(&t.len()) {
                pair(ctx, format!("fr-CA-u-{}", t), "fr-CA".into());
            }
        }
        let langs: Vec<&str> = lx::LANGS.iter().copied().filter(|w| crate::refspec::is_lang(w.as_bytes())).collect();
        for a in &langs {
            for b in &langs {
                pair(ctx, a.to_string(), b.to_string());
                if a != b {
                    pair(ctx, format!("{}-Latn-001", a), format!("{}-Latn-001", b));
                }
            }
        }
    }
    // values handed from one API to another: the result of maximize / minimize on every CLDR key (subtags that come out
    // of the compiled tables) matched against the parsed CLDR value, the parsed key and itself
    #[cfg(feature = "likely")]
    if let Ok(lk) = crate::likely::Likely::load() {
        for (i, (k, v)) in lk.entries.iter().enumerate() {
            if i % ctx.nshards != ctx.shard {
                continue;
            }
            let (Ok(key), Ok(val)) = (k.parse::<Locale>(), v.parse::<Locale>()) else { continue };
            let mut mx = key.clone();
            let mut mn = val.clone();
            if guard(|| {
                mx.id.maximize();
                mn.id.minimize();
            })
            .is_err()
            {
                ctx.count("setup: maximize/minimize panicked (pair skipped)");
                continue;
            }
            mon::begin_case(k.as_bytes());
            ctx.count_n("likely-subtags results as operands", 4);
            judge_pair(ctx, &mx, &val);
            judge_pair(ctx, &key, &mx);
            judge_pair(ctx, &mn, &key);
            judge_pair(ctx, &mx, &mn);
        }
    }
    ctx.extra.insert("product_domain".into(), json!({"identifiers": ids.len(), "pairs": ids.len() * ids.len(), "flag_pairs": 4, "extension_combinations_per_pair": 4}));
    mon::idle();
    // random pairs: b is a perturbation of a (fields dropped / changed) so that all outcomes occur
    let n = if ctx.quick() { 100_000u64 } else { 10_000_000 } / ctx.nshards as u64;
    let mut r = Rng::new(mix(&[ctx.seed, ctx.shard as u64, 0xC11]));
    for _ in 0..n {
        ctx.rng_state = Some(r.state());
        let sa = gen::gen_sloc(&mut r, true, true);
        let mut sb = if r.chance(1, 5) { gen::gen_sloc(&mut r, true, true) } else { sa.clone() };
        // change exactly one character of one subtag (a near neighbour: a packed / hashed comparison that
        // collides on neighbouring values is only visible on such pairs)
        fn bump(s: &str, r: &mut Rng) -> String {
            let mut b = s.as_bytes().to_vec();
            if b.is_empty() {
                return s.to_string();
            }
            let i = r.below(b.len());
            b[i] = match b[i] {
                b'0'..=b'9' => b'0' + ((b[i] - b'0') + 1 + r.below(8) as u8) % 10,
                b'a'..=b'z' => b'a' + ((b[i] - b'a') + 1 + r.below(24) as u8) % 26,
                b'A'..=b'Z' => b'A' + ((b[i] - b'A') + 1 + r.below(24) as u8) % 26,
                c => c,
            };
            String::from_utf8(b).unwrap_or_else(|_| s.to_string())
        }
        if r.chance(1, 3) {
            match r.below(4) {
                0 => {
                    if let Some(x) = sb.id.region.clone() {
                        sb.id.region = Some(bump(&x, &mut r));
                    }
                }
                1 => {
                    if let Some(x) = sb.id.script.clone() {
                        sb.id.script = Some(bump(&x, &mut r));
                    }
                }
                2 => {
                    if sb.id.lang != "und" {
                        let x = bump(&sb.id.lang.clone(), &mut r);
                        if x != "und" {
                            sb.id.lang = x;
                        }
                    }
                }
                _ => {
                    if let Some(x) = sb.id.variants.last().cloned() {
                        let k = sb.id.variants.len() - 1;
                        let nb = bump(&x, &mut r);
                        // keep it a variant: the first character of a 4-character variant must stay a digit
                        if crate::refspec::is_variant(nb.as_bytes()) {
                            sb.id.variants[k] = nb;
                        }
                    }
                }
            }
            ctx.count("random-pairs: near neighbour (one character of one subtag changed)");
        }
        for _ in 0..r.below(3) {
            match r.below(8) {
                0 => sb.id.lang = "und".into(),
                1 => sb.id.script = None,
                2 => sb.id.region = None,
                3 => sb.id.variants.clear(),
                4 => sb.id.region = Some(gen::gen_region(&mut r)),
                5 => sb.id.variants.push(gen::gen_variant(&mut r)),
                6 => sb.x = None,
                _ => sb.id.lang = gen::gen_lang(&mut r),
            }
        }
        let (ta, tb) = (gen::render_random(&sa.tokens(), &mut r), gen::render_random(&sb.tokens(), &mut r));
        let (Ok(la), Ok(lb)) = (Locale::from_bytes(&ta), Locale::from_bytes(&tb)) else { continue };
        mon::begin_case(&ta);
        ctx.count("random-pairs");
        judge_pair(ctx, &la, &lb);
        if r.chance(1, 4) {
            let k = r.below(N_ROUTES);
            ROUTE_CTX.with(|c| c.set((k + 1, 0)));
            judge_pair(ctx, &reroute_k(&la, k).0, &lb);
            ROUTE_CTX.with(|c| c.set((0, 0)));
            ctx.count("random-pairs: operand rebuilt along another construction route");
        }
    }
    ctx.rng_state = None;
    mon::idle();
    ctx.extra.insert("floors".into(), json!({"product:plain": 700, "result:match": 1000, "result:mismatch": 1000}));
}

// ------------------------------------------------------------------ C12

fn h64<T: Hash>(t: &T) -> u64 {
    let mut h = DefaultHasher::new();
    t.hash(&mut h);
    h.finish()
}

/// R-order key of a language identifier: absent subtag first, then field by field.
fn order_key(o: &LangId) -> (Option<String>, Option<String>, Option<String>, Vec<String>) {
    (if o.lang == "und" { None } else { Some(o.lang.clone()) }, o.script.clone(), o.region.clone(), o.variants.clone())
}

struct Item {
    loc: Locale,
    s: String,
    ids: String,
    hash: u64,
    idhash: u64,
    route: &'static str,
    key: (Option<String>, Option<String>, Option<String>, Vec<String>),
    desc: Value,
    /// canonical text and digest of the extension map and of its three lists (each is a type of its own with
    /// Eq / Ord / Hash / Display, so the property quantifies over them too)
    ext: [(String, u64); 4],
}

/// Same logical value along a different route.
pub const ROUTE_RAW: &str = "id and tlang rebuilt by from_raw_parts_unchecked(into_parts, Some(boxed variants))";
fn raw_rebuild(li: &unic_langid_impl::LanguageIdentifier) -> unic_langid_impl::LanguageIdentifier {
    let (lang, s, rg, v) = li.clone().into_parts();
    unic_langid_impl::LanguageIdentifier::from_raw_parts_unchecked(lang, s, rg, Some(v.into_boxed_slice()))
}
fn raw_route(l: &Locale) -> Locale {
    let mut m = l.clone();
    m.id = raw_rebuild(&l.id);
    if let Some(t) = l.extensions.transform.tlang() {
        let _ = m.extensions.transform.set_tlang(raw_rebuild(t));
    }
    m
}

pub const N_ROUTES: usize = 8;
fn reroute(l: &Locale, r: &mut Rng) -> (Locale, &'static str) {
    reroute_k(l, r.below(N_ROUTES))
}
/// The same logical value built along route `k` (deterministic, so a witness can name the route).
pub fn reroute_k(l: &Locale, k: usize) -> (Locale, &'static str) {
    match k {
        6 => (raw_route(l), ROUTE_RAW),
        0 => {
            let t = l.to_string();
            crate::stream::hostile_neighbour(t.as_bytes());
            (t.parse().unwrap_or_else(|_| l.clone()), "reparse")
        }
        1 => {
            let up = l.to_string().to_ascii_uppercase().replace('-', "_");
            (up.parse().unwrap_or_else(|_| l.clone()), "parse-uppercase-underscore")
        }
        2 => {
            let (lang, s, rg, v, e) = l.clone().into_parts();
            let mut vv = v.clone();
            vv.reverse();
            vv.extend(v.iter().cloned());
            (Locale::from_parts(lang, s, rg, &vv, Some(e.parse().unwrap_or_default())), "from_parts(reversed+duplicated variants)")
        }
        3 => {
            // add-then-remove on every collection, set_variants(&[]) when empty
            let mut m = l.clone();
            let _ = m.extensions.unicode.set_keyword("zz", &["zzzzz"]);
            let had = l.extensions.unicode.keyword("zz").map(|k| k.len() > 0).unwrap_or(false) || l.extensions.unicode.keyword_keys().any(|k| k == "zz");
            if !had {
                let _ = m.extensions.unicode.remove_keyword("zz");
            } else {
                m.extensions.unicode = l.extensions.unicode.clone();
            }
            if !l.extensions.unicode.has_attribute("qqqqqq").unwrap_or(true) {
                let _ = m.extensions.unicode.set_attribute("qqqqqq");
                let _ = m.extensions.unicode.remove_attribute("QQQQQQ");
            }
            if !l.extensions.transform.tfield_keys().any(|k| k == "q9") {
                let _ = m.extensions.transform.set_tfield("q9", &["qqq"]);
                let _ = m.extensions.transform.remove_tfield("Q9");
            }
            let _ = m.extensions.private.add_tag("qqqqqqq");
            let _ = m.extensions.private.remove_tag("qqqqqqq");
            if m.id.variants().len() == 0 {
                m.id.set_variants(&[]);
            } else {
                let vs: Vec<Variant> = m.id.variants().cloned().collect();
                m.id.clear_variants();
                m.id.set_variants(&vs);
            }
            (m, "add-then-remove / set_variants")
        }
        4 | 7 => {
            // default + assignment of every part (route 7: set_variants is not called for an empty list)
            let mut m = Locale::default();
            m.id.language = l.id.language;
            m.id.script = l.id.script;
            m.id.region = l.id.region;
            let vs: Vec<Variant> = l.id.variants().cloned().collect();
            if !vs.is_empty() || k == 4 {
                m.id.set_variants(&vs);
            }
            for a in l.extensions.unicode.attributes().collect::<Vec<_>>().into_iter().rev() {
                let _ = m.extensions.unicode.set_attribute(a);
            }
            for k in l.extensions.unicode.keyword_keys().collect::<Vec<_>>().into_iter().rev() {
                let vals: Vec<&str> = l.extensions.unicode.keyword(k).map(|i| i.collect()).unwrap_or_default();
                let _ = m.extensions.unicode.set_keyword(k, &vals);
            }
            if let Some(t) = l.extensions.transform.tlang() {
                let _ = m.extensions.transform.set_tlang(t.clone());
            }
            for k in l.extensions.transform.tfield_keys().collect::<Vec<_>>().into_iter().rev() {
                let vals: Vec<&str> = l.extensions.transform.tfield(k).map(|i| i.collect()).unwrap_or_default();
                let _ = m.extensions.transform.set_tfield(k, &vals);
            }
            for t in l.extensions.private.tags().collect::<Vec<_>>().into_iter().rev() {
                let _ = m.extensions.private.add_tag(t);
            }
            (m, if k == 4 { "default+setters(reverse order), set_variants always" } else { "default+setters(reverse order)" })
        }
        _ => {
            let mut m = l.clone();
            m.extensions.unicode.clear_attributes();
            for a in l.extensions.unicode.attributes() {
                let _ = m.extensions.unicode.set_attribute(a.to_ascii_uppercase());
            }
            m.extensions.private.clear_tags();
            for t in l.extensions.private.tags() {
                let _ = m.extensions.private.add_tag(t);
            }
            (m, "clear+re-add")
        }
    }
}

/// A *different* logical value that differs from `l` in one small aspect (moves one element between
/// two adjacent containers, or changes one element minimally). Near neighbours are what a hand-written
/// Eq/Ord/Hash that flattens or truncates its fields confuses.
fn neighbour(l: &Locale, r: &mut Rng) -> Option<(Locale, &'static str)> {
    let mut m = l.clone();
    let u = &l.extensions.unicode;
    let t = &l.extensions.transform;
    match r.below(9) {
        7 | 8 => {
            // exactly one character of one subtag of the id changed (any position: a comparison made on a packed,
            // truncated or hashed form of a subtag confuses values that differ in one late or one early character)
            fn bump_at(s: &str, i: usize, r: &mut Rng) -> String {
                let mut b = s.as_bytes().to_vec();
                b[i] = match b[i] {
                    b'0'..=b'9' => b'0' + ((b[i] - b'0') + 1 + r.below(8) as u8) % 10,
                    b'a'..=b'z' => b'a' + ((b[i] - b'a') + 1 + r.below(24) as u8) % 26,
                    b'A'..=b'Z' => b'A' + ((b[i] - b'A') + 1 + r.below(24) as u8) % 26,
                    c => c,
                };
                String::from_utf8(b).unwrap_or_else(|_| s.to_string())
            }
            let pos = |len: usize, r: &mut Rng| match r.below(3) {
                0 => 0,
                1 => len - 1,
                _ => r.below(len),
            };
            match r.below(4) {
                0 if !l.id.language.is_empty() => {
                    let t = l.id.language.as_str();
                    let n = bump_at(t, pos(t.len(), r), r);
                    if n == "und" {
                        return None;
                    }
                    m.id.language = n.parse().ok()?;
                }
                1 => {
                    let t = l.id.script?;
                    let t = t.as_str();
                    m.id.script = Some(bump_at(t, pos(t.len(), r), r).parse().ok()?);
                }
                2 => {
                    let t = l.id.region?;
                    let t = t.as_str();
                    m.id.region = Some(bump_at(t, pos(t.len(), r), r).parse().ok()?);
                }
                _ => {
                    let mut vs: Vec<Variant> = l.id.variants().cloned().collect();
                    if vs.is_empty() {
                        return None;
                    }
                    let k = r.below(vs.len());
                    let t = vs[k].as_str().to_string();
                    vs[k] = bump_at(&t, pos(t.len(), r), r).parse().ok()?;
                    m.id.set_variants(&vs);
                }
            }
            Some((m, "neighbour: one character of one id subtag changed"))
        }
        0 => {
            // move the last type of one keyword to the front of the next keyword (same flattened type sequence)
            let keys: Vec<&str> = u.keyword_keys().collect();
            if keys.len() < 2 {
                return None;
            }
            let i = r.below(keys.len() - 1);
            let mut a: Vec<&str> = u.keyword(keys[i]).ok()?.collect();
            let mut b: Vec<&str> = u.keyword(keys[i + 1]).ok()?.collect();
            if let Some(x) = a.pop() {
                b.insert(0, x);
            } else if !b.is_empty() {
                a.push(b.remove(0));
            } else {
                return None;
            }
            m.extensions.unicode.set_keyword(keys[i], &a).ok()?;
            m.extensions.unicode.set_keyword(keys[i + 1], &b).ok()?;
            Some((m, "neighbour: keyword type moved to the adjacent key"))
        }
        1 => {
            let keys: Vec<&str> = t.tfield_keys().collect();
            if keys.len() < 2 {
                return None;
            }
            let i = r.below(keys.len() - 1);
            let mut a: Vec<&str> = t.tfield(keys[i]).ok()?.collect();
            let mut b: Vec<&str> = t.tfield(keys[i + 1]).ok()?.collect();
            if let Some(x) = a.pop() {
                b.insert(0, x);
            } else if !b.is_empty() {
                a.push(b.remove(0));
            } else {
                return None;
            }
            m.extensions.transform.set_tfield(keys[i], &a).ok()?;
            m.extensions.transform.set_tfield(keys[i + 1], &b).ok()?;
            Some((m, "neighbour: tfield value moved to the adjacent key"))
        }
        2 => {
            // an attribute becomes the first type of the first keyword (or vice versa)
            let keys: Vec<&str> = u.keyword_keys().collect();
            let attrs: Vec<&str> = u.attributes().collect();
            let k = *keys.first()?;
            let mut vals: Vec<&str> = u.keyword(k).ok()?.collect();
            if let Some(a) = attrs.last() {
                m.extensions.unicode.remove_attribute(*a).ok()?;
                vals.insert(0, a);
            } else if !vals.is_empty() {
                let v = vals.remove(0);
                m.extensions.unicode.set_attribute(v).ok()?;
            } else {
                return None;
            }
            m.extensions.unicode.set_keyword(k, &vals).ok()?;
            Some((m, "neighbour: attribute <-> first keyword type"))
        }
        3 => {
            // the variant list loses its last element / a variant moves into the tlang
            let vs: Vec<Variant> = l.id.variants().cloned().collect();
            if vs.is_empty() {
                return None;
            }
            m.id.set_variants(&vs[..vs.len() - 1]);
            if let Some(tl) = t.tlang() {
                let mut tl = tl.clone();
                let mut tv: Vec<Variant> = tl.variants().cloned().collect();
                tv.push(vs[vs.len() - 1]);
                tl.set_variants(&tv);
                m.extensions.transform.set_tlang(tl).ok()?;
            }
            Some((m, "neighbour: last variant dropped / moved into the tlang"))
        }
        4 => {
            // region of the id and region of the tlang swapped
            let tl = t.tlang()?.clone();
            if tl.region == l.id.region && tl.script == l.id.script {
                return None;
            }
            let mut tl2 = tl.clone();
            tl2.region = l.id.region;
            tl2.script = l.id.script;
            m.id.region = tl.region;
            m.id.script = tl.script;
            m.extensions.transform.set_tlang(tl2).ok()?;
            Some((m, "neighbour: script/region swapped between id and tlang"))
        }
        5 => {
            // one private tag becomes a keyword type / is dropped
            let tags: Vec<&str> = l.extensions.private.tags().collect();
            let tg = *tags.last()?;
            m.extensions.private.remove_tag(tg).ok()?;
            Some((m, "neighbour: last private tag dropped"))
        }
        _ => {
            // language cleared (und) with everything else kept
            if l.id.language.is_empty() {
                return None;
            }
            m.id.language.clear();
            Some((m, "neighbour: language cleared"))
        }
    }
}

fn item(loc: Locale, route: &'static str, desc: Value) -> Item {
    let s = loc.to_string();
    let ids = loc.id.to_string();
    let key = order_key(&obs_li(&loc.id));
    let e = &loc.extensions;
    let ext = [(e.to_string(), h64(e)), (e.unicode.to_string(), h64(&e.unicode)), (e.transform.to_string(), h64(&e.transform)), (e.private.to_string(), h64(&e.private))];
    Item { hash: h64(&loc), idhash: h64(&loc.id), s, ids, loc, route, key, desc, ext }
}

fn viol(ctx: &mut Ctx, clause: &str, w: Value, detail: String) {
    ctx.viol_total += 1;
    ctx.count_dyn(&format!("violation:{}", clause));
    if ctx.may_minimise(clause) {
        ctx.add_violation(clause, w, json!(null), detail);
    }
}

pub fn c12_check_two(a: &Locale, b: &Locale) -> Vec<Fail> {
    let mut out = vec![];
    let (sa, sb) = (a.to_string(), b.to_string());
    if (a == b) != (sa == sb) {
        out.push(fail("locale-eq-vs-string", format!("{:?} == {:?} is {} but strings equal is {}", sa, sb, a == b, sa == sb)));
    }
    if (a.id == b.id) != (a.id.to_string() == b.id.to_string()) {
        out.push(fail("langid-eq-vs-string", format!("{} vs {}", a.id, b.id)));
    }
    if a == b && (h64(a) != h64(b) || a.cmp(b) != Ordering::Equal) {
        out.push(fail("equal-but-hash-or-cmp-differ", format!("{:?}", sa)));
    }
    if a.id == b.id && (h64(&a.id) != h64(&b.id) || a.id.cmp(&b.id) != Ordering::Equal) {
        out.push(fail("equal-but-hash-or-cmp-differ", format!("{}", a.id)));
    }
    if sa != sb && a.cmp(b) == Ordering::Equal {
        out.push(fail("cmp-equal-but-different", format!("{:?} and {:?} are different values but compare Equal", sa, sb)));
    }
    if a.cmp(b) != b.cmp(a).reverse() || a.id.cmp(&b.id) != b.id.cmp(&a.id).reverse() || a.partial_cmp(b) != Some(a.cmp(b)) {
        out.push(fail("cmp-antisymmetry", format!("{:?} vs {:?}", sa, sb)));
    }
    let (ka, kb) = (order_key(&obs_li(&a.id)), order_key(&obs_li(&b.id)));
    if a.id.cmp(&b.id) != ka.cmp(&kb) {
        out.push(fail("langid-order", format!("{}.cmp({}) = {:?}, field-by-field (absent first) gives {:?}", a.id, b.id, a.id.cmp(&b.id), ka.cmp(&kb))));
    }
    if ka != kb && a.cmp(b) != ka.cmp(&kb) {
        out.push(fail("locale-order-major-key", format!("{:?}.cmp({:?}) = {:?} but the ids order {:?}", sa, sb, a.cmp(b), ka.cmp(&kb))));
    }
    // the extension map and its three lists as values of their own
    fn one<T: Eq + Ord + Hash + std::fmt::Display>(ty: &str, x: &T, y: &T, out: &mut Vec<Fail>) {
        let (tx, ty_) = (x.to_string(), y.to_string());
        let teq = tx == ty_;
        if (x == y) != teq {
            out.push(fail("extensions-eq-vs-string", format!("{} {:?} == {:?} is {} but their strings are {}", ty, tx, ty_, x == y, if teq { "equal" } else { "different" })));
        }
        if teq && (h64(x) != h64(y) || x.cmp(y) != Ordering::Equal) {
            out.push(fail("extensions-equal-but-hash-or-cmp-differ", format!("{} {:?}", ty, tx)));
        }
        if !teq && x.cmp(y) == Ordering::Equal {
            out.push(fail("extensions-cmp-equal-but-different", format!("{} {:?} and {:?} are different values but compare Equal", ty, tx, ty_)));
        }
        if x.cmp(y) != y.cmp(x).reverse() || x.partial_cmp(y) != Some(x.cmp(y)) {
            out.push(fail("extensions-cmp-antisymmetry", format!("{} {:?} vs {:?}", ty, tx, ty_)));
        }
    }
    one("ExtensionsMap", &a.extensions, &b.extensions, &mut out);
    one("UnicodeExtensionList", &a.extensions.unicode, &b.extensions.unicode, &mut out);
    one("TransformExtensionList", &a.extensions.transform, &b.extensions.transform, &mut out);
    one("PrivateExtensionList", &a.extensions.private, &b.extensions.private, &mut out);
    out
}

pub fn c12_replay(v: &Value) -> Vec<Fail> {
    #[cfg(feature = "likely")]
    if let (Some(k), Some(route)) = (v["cldr_key"].as_str(), v["route_a"].as_str()) {
        if let Ok(mut x) = k.parse::<unic_langid_impl::LanguageIdentifier>() {
            if route.starts_with("maximize") {
                x.maximize();
            } else {
                x.minimize();
            }
            let a = Locale::from(x);
            return match a.to_string().parse::<Locale>() {
                Ok(twin) => c12_check_two(&a, &twin),
                Err(_) => vec![fail("bad-replay", "result does not re-parse")],
            };
        }
    }
    let (Some(a), Some(b)) = (v["a"].as_str(), v["b"].as_str()) else {
        return vec![fail("bad-replay", "need a and b (canonical strings); route-specific witnesses are replayed by re-running with the recorded seed")];
    };
    match (a.parse::<Locale>(), b.parse::<Locale>()) {
        (Ok(a), Ok(b)) => {
            let a = if v["route_a"].as_str() == Some(ROUTE_RAW) { raw_route(&a) } else { a };
            let b = if v["route_b"].as_str() == Some(ROUTE_RAW) { raw_route(&b) } else { b };
            c12_check_two(&a, &b)
        }
        _ => vec![fail("bad-replay", "operands do not parse")],
    }
}

pub fn run_c12(ctx: &mut Ctx) {
    let quick = ctx.quick();
    // the pool is identical in every shard (same seed); the pair matrix is sharded by row
    let logical = if quick { 600 } else { 5000 };
    let mut r = Rng::new(mix(&[ctx.seed, 0xC12]));
    let mut pool: Vec<Item> = Vec::with_capacity(logical * 5);
    while pool.len() < logical * 5 {
        let (l, route, desc) = gen_value(&mut r);
        let mut routes_seen = vec![route];
        pool.push(item(l.clone(), route, desc.clone()));
        for k in 0..4 {
            if k == 3 {
                // one slot of every logical value goes to a near neighbour (a different value) when one exists
                if let Some((m, rt)) = (0..4).find_map(|_| neighbour(&l, &mut r)) {
                    if m.to_string() != l.to_string() {
                        pool.push(item(m, rt, json!({"neighbour_of": l.to_string(), "route": rt})));
                        continue;
                    }
                }
            }
            let (m, rt) = reroute(&l, &mut r);
            if !routes_seen.contains(&rt) {
                routes_seen.push(rt);
            }
            pool.push(item(m, rt, json!({"rerouted_from": l.to_string(), "route": rt})));
        }
    }
    // every real-world script, region, variant and language once, in the same position of an otherwise equal
    // identifier: the all-pairs phase then compares every ordered pair of them (an Ord that packs a subtag into an
    // integer, or compares lengths first, disagrees with the field-by-field order on particular pairs only)
    {
        use crate::lexicon as lx;
        let add = |text: String, pool: &mut Vec<Item>| {
            if let Ok(l) = text.parse::<Locale>() {
                pool.push(item(l, "lexicon", json!({"text": text})));
            }
        };
        for (i, w) in lx::SCRIPTS.iter().enumerate() {
            if crate::refspec::is_script(w.as_bytes()) && (!quick || i % 2 == 0) {
                add(format!("mn-{}", w), &mut pool);
            }
        }
        for (i, w) in lx::REGIONS.iter().enumerate() {
            if crate::refspec::is_region(w.as_bytes()) && (!quick || i % 2 == 0) {
                add(format!("es-{}", w), &mut pool);
            }
        }
        for (i, w) in lx::VARIANTS.iter().enumerate() {
            if crate::refspec::is_variant(w.as_bytes()) && (!quick || i % 3 == 0) {
                add(format!("de-{}", w), &mut pool);
            }
        }
        for (i, w) in lx::LANGS.iter().enumerate() {
            if crate::refspec::is_lang(w.as_bytes()) && (!quick || i % 3 == 0) {
                add(w.to_string(), &mut pool);
            }
        }
        // whole real-world identifiers (those the library accepts), each with the re-parse of its own serialisation
        for w in lx::IDS {
            if let Ok(l) = w.parse::<Locale>() {
                if let Ok(twin) = l.to_string().parse::<Locale>() {
                    pool.push(item(twin, "reparse of a lexicon identifier", json!({"text": w})));
                }
                pool.push(item(l, "lexicon identifier", json!({"text": w})));
            }
        }
    }
    ctx.extra.insert("pool".into(), json!({"values": pool.len(), "logical_values": logical, "ordered_pairs": pool.len() * pool.len()}));
    // (a) all ordered pairs, rows sharded
    let n = pool.len();
    let (mut ext_equal, mut ext_diff) = (0u64, 0u64);
    for i in (ctx.shard..n).step_by(ctx.nshards) {
        let a = &pool[i];
        mon::begin_case(a.s.as_bytes());
        for b in pool.iter() {
            ctx.evals += 1;
            let eq = a.loc == b.loc;
            let seq = a.s == b.s;
            if eq != seq {
                viol(ctx, "locale-eq-vs-string", json!({"a": a.s, "b": b.s, "route_a": a.route, "route_b": b.route, "built_a": a.desc, "built_b": b.desc}), format!("{:?} ({}) == {:?} ({}) is {} but their strings are {}", a.s, a.route, b.s, b.route, eq, if seq { "equal" } else { "different" }));
            }
            let ideq = a.loc.id == b.loc.id;
            if ideq != (a.ids == b.ids) {
                viol(ctx, "langid-eq-vs-string", json!({"a": a.ids, "b": b.ids, "route_a": a.route, "route_b": b.route}), format!("{:?} == {:?} is {}", a.ids, b.ids, ideq));
            }
            let c = a.loc.cmp(&b.loc);
            if seq {
                ctx.count(if a.route != b.route { "pairs:equal-by-string,different-routes" } else { "pairs:equal-by-string,same-route" });
                if a.route != b.route {
                    ctx.sig(SigH::new(12).b(a.s.as_bytes()).b(a.route.as_bytes()).b(b.route.as_bytes()).fin());
                }
                if a.hash != b.hash || c != Ordering::Equal {
                    viol(ctx, "equal-but-hash-or-cmp-differ", json!({"a": a.s, "b": b.s, "route_a": a.route, "route_b": b.route, "built_a": a.desc, "built_b": b.desc}), format!("{:?}: hash {} vs {}, cmp {:?}", a.s, a.hash, b.hash, c));
                }
            } else {
                ctx.count("pairs:different");
                if a.route.starts_with("neighbour") || b.route.starts_with("neighbour") {
                    ctx.count("pairs:different,one side a near neighbour");
                }
                if c == Ordering::Equal || a.loc.partial_cmp(&b.loc) == Some(Ordering::Equal) {
                    viol(ctx, "cmp-equal-but-different", json!({"a": a.s, "b": b.s, "route_a": a.route, "route_b": b.route}), format!("{:?} and {:?} are different values (different canonical strings) but compare Equal: the order is not a strict total order", a.s, b.s));
                }
            }
            if a.ids == b.ids && (a.idhash != b.idhash || a.loc.id.cmp(&b.loc.id) != Ordering::Equal) {
                viol(ctx, "equal-but-hash-or-cmp-differ", json!({"a": a.ids, "b": b.ids, "route_a": a.route, "route_b": b.route}), format!("ids {:?}", a.ids));
            }
            if c != b.loc.cmp(&a.loc).reverse() || a.loc.partial_cmp(&b.loc) != Some(c) {
                viol(ctx, "cmp-antisymmetry", json!({"a": a.s, "b": b.s}), format!("{:?} vs {:?}: {:?}", a.s, b.s, c));
            }
            let idc = a.loc.id.cmp(&b.loc.id);
            let kc = a.key.cmp(&b.key);
            if idc != kc {
                viol(ctx, "langid-order", json!({"a": a.ids, "b": b.ids}), format!("{}.cmp({}) = {:?}, field-by-field (absent first) gives {:?}", a.ids, b.ids, idc, kc));
            }
            if kc != Ordering::Equal && c != kc {
                viol(ctx, "locale-order-major-key", json!({"a": a.s, "b": b.s}), format!("{:?}.cmp({:?}) = {:?} but the ids order {:?}", a.s, b.s, c, kc));
            }
            if kc != Ordering::Equal {
                ctx.sig(SigH::new(0x120).b(a.ids.as_bytes()).u(kc as i8 as u64).fin());
            }
            // the extension map and its three lists as values of their own
            let (ea, eb) = (&a.loc.extensions, &b.loc.extensions);
            let parts: [(&'static str, bool, Ordering, Ordering, Option<Ordering>); 4] = [
                ("ExtensionsMap", ea == eb, ea.cmp(eb), eb.cmp(ea), ea.partial_cmp(eb)),
                ("UnicodeExtensionList", ea.unicode == eb.unicode, ea.unicode.cmp(&eb.unicode), eb.unicode.cmp(&ea.unicode), ea.unicode.partial_cmp(&eb.unicode)),
                ("TransformExtensionList", ea.transform == eb.transform, ea.transform.cmp(&eb.transform), eb.transform.cmp(&ea.transform), ea.transform.partial_cmp(&eb.transform)),
                ("PrivateExtensionList", ea.private == eb.private, ea.private.cmp(&eb.private), eb.private.cmp(&ea.private), ea.private.partial_cmp(&eb.private)),
            ];
            for (k, (ty, eq, c, rc, pc)) in parts.into_iter().enumerate() {
                let (ta, tb) = (&a.ext[k], &b.ext[k]);
                let teq = ta.0 == tb.0;
                if teq {
                    ext_equal += 1;
                } else {
                    ext_diff += 1;
                }
                if eq != teq {
                    viol(ctx, "extensions-eq-vs-string", json!({"a": a.s, "b": b.s, "route_a": a.route, "route_b": b.route, "type": ty}), format!("{} {:?} == {:?} is {} but their strings are {}", ty, ta.0, tb.0, eq, if teq { "equal" } else { "different" }));
                }
                if teq && (ta.1 != tb.1 || c != Ordering::Equal) {
                    viol(ctx, "extensions-equal-but-hash-or-cmp-differ", json!({"a": a.s, "b": b.s, "route_a": a.route, "route_b": b.route, "type": ty}), format!("{} {:?}: hash {} vs {}, cmp {:?}", ty, ta.0, ta.1, tb.1, c));
                }
                if !teq && c == Ordering::Equal {
                    viol(ctx, "extensions-cmp-equal-but-different", json!({"a": a.s, "b": b.s, "type": ty}), format!("{} {:?} and {:?} are different values but compare Equal", ty, ta.0, tb.0));
                }
                if c != rc.reverse() || pc != Some(c) {
                    viol(ctx, "extensions-cmp-antisymmetry", json!({"a": a.s, "b": b.s, "type": ty}), format!("{} {:?} vs {:?}: {:?} / {:?} / {:?}", ty, ta.0, tb.0, c, rc, pc));
                }
            }
        }
    }
    ctx.count_n("extension-values:pairs equal by string", ext_equal);
    ctx.count_n("extension-values:pairs different", ext_diff);
    mon::idle();
    // (b) totality/transitivity over the whole pool at once (shard 0 only: it is O(n log n) + one pass)
    if ctx.shard == 0 {
        let mut idx: Vec<usize> = (0..n).collect();
        idx.sort_by(|x, y| pool[*x].loc.cmp(&pool[*y].loc));
        for w in idx.windows(2) {
            ctx.evals += 1;
            let (a, b) = (&pool[w[0]], &pool[w[1]]);
            if a.key > b.key {
                viol(ctx, "sorted-pool-not-sorted-by-fields", json!({"a": a.s, "b": b.s}), format!("sorting by Ord puts {:?} before {:?} but field-by-field order is the opposite", a.s, b.s));
            }
            if a.loc.cmp(&b.loc) == Ordering::Greater {
                viol(ctx, "order-not-transitive", json!({"a": a.s, "b": b.s}), "sort result is not ordered: Ord is not a total order".into());
            }
        }
        // every i<j of the sorted order must not compare Greater (transitivity witness over all pairs, sampled stride for thorough)
        let stride = if quick { 1 } else { 7 };
        for i in (0..n).step_by(stride) {
            for j in (i + 1..n).step_by(stride) {
                ctx.evals += 1;
                if pool[idx[i]].loc.cmp(&pool[idx[j]].loc) == Ordering::Greater {
                    viol(ctx, "order-not-transitive", json!({"a": pool[idx[i]].s, "b": pool[idx[j]].s}), "x sorted before y but x > y".into());
                }
            }
        }
        ctx.count_n("sorted-pool-checked", n as u64);
    }
    // (d) values only maximize / minimize can produce (their subtags come out of the compiled tables):
    // each against its own re-parsed twin and against its neighbour in CLDR key order
    #[cfg(feature = "likely")]
    if let Ok(lk) = crate::likely::Likely::load() {
        let mut prev: Option<Locale> = None;
        for (i, (k, _)) in lk.entries.iter().enumerate() {
            if i % ctx.nshards != ctx.shard {
                continue;
            }
            let Ok(li) = k.parse::<unic_langid_impl::LanguageIdentifier>() else { continue };
            for which in 0..2 {
                let mut x = li.clone();
                if crate::mon::guard(|| if which == 0 { x.maximize() } else { x.minimize() }).is_err() {
                    ctx.count("setup: maximize/minimize panicked (value skipped)");
                    continue;
                }
                let a = Locale::from(x);
                let Ok(twin) = a.to_string().parse::<Locale>() else { continue };
                mon::begin_case(k.as_bytes());
                ctx.evals += 2;
                ctx.count("pairs:likely-subtags-result vs re-parsed twin / neighbour");
                let mut fails = c12_check_two(&a, &twin);
                if let Some(p) = &prev {
                    fails.extend(c12_check_two(&a, p));
                }
                for f in fails {
                    viol(ctx, &f.clause, json!({"a": a.to_string(), "b": twin.to_string(), "route_a": if which == 0 { "maximize(cldr key)" } else { "minimize(cldr key)" }, "route_b": "parse", "cldr_key": k}), f.detail);
                }
                prev = Some(a);
            }
        }
        mon::idle();
    }
    // (c) comparison with &str
    let mut rs = Rng::new(mix(&[ctx.seed, ctx.shard as u64, 0xC12A]));
    for i in (ctx.shard..n).step_by(ctx.nshards) {
        let a = &pool[i];
        let other = &pool[rs.below(n)].ids;
        let cands: Vec<String> = vec![
            a.ids.clone(),
            a.ids.to_ascii_uppercase(),
            a.ids.to_ascii_lowercase(),
            a.ids.replace('-', "_"),
            a.ids[..a.ids.len() - 1].to_string(),
            format!("{}-", a.ids),
            format!("{}x", a.ids),
            format!("{}-x-{}", a.ids, a.ids),
            format!("{}-nedis", a.ids),
            format!("{}-nedis-valencia", a.ids),
            format!("{}-US", a.ids),
            other.clone(),
            String::new(),
        ];
        for c in &cands {
            ctx.evals += 1;
            let got = a.loc.id == c.as_str();
            let want = *c == a.ids;
            ctx.count(if want { "str-eq:true" } else { "str-eq:false" });
            if got != want {
                viol(ctx, "langid-eq-str", json!({"value": a.ids, "str": c}), format!("LanguageIdentifier {:?} == {:?} is {}, canonical-text equality is {}", a.ids, c, got, want));
            }
        }
        // subtags
        let li = &a.loc.id;
        let lt = li.language.as_str().to_string();
        for c in [lt.clone(), lt.to_ascii_uppercase(), format!("{}x", lt), format!("{}-x", lt), format!("{}-Latn-US", lt), format!("{}{}", lt, lt), format!("{}abcdefgh", lt), "und".to_string(), String::new()] {
            ctx.evals += 1;
            if (li.language == c.as_str()) != (c == lt) {
                viol(ctx, "subtag-eq-str", json!({"type": "language", "value": lt, "str": c}), format!("Language {:?} == {:?} is {}", lt, c, li.language == c.as_str()));
            }
        }
        if let Some(s) = li.script {
            let t = s.as_str().to_string();
            for c in [t.clone(), t.to_ascii_uppercase(), t.to_ascii_lowercase(), t[..3].to_string(), format!("{}x", t), format!("{}{}", t, t), format!("{}-{}", t, t)] {
                ctx.evals += 1;
                if (s == c.as_str()) != (c == t) {
                    viol(ctx, "subtag-eq-str", json!({"type": "script", "value": t, "str": c}), format!("Script {:?} == {:?} is {}", t, c, s == c.as_str()));
                }
            }
        }
        if let Some(s) = li.region {
            let t = s.as_str().to_string();
            for c in [t.clone(), t.to_ascii_lowercase(), format!("{}1", t), format!("{}{}", t, t), format!("{}AB", t)] {
                ctx.evals += 1;
                if (s == c.as_str()) != (c == t) {
                    viol(ctx, "subtag-eq-str", json!({"type": "region", "value": t, "str": c}), format!("Region {:?} == {:?} is {}", t, c, s == c.as_str()));
                }
            }
        }
        for v in li.variants() {
            let t = v.as_str().to_string();
            for c in [t.clone(), t.to_ascii_uppercase(), t[..t.len() - 1].to_string(), format!("{}1", t), format!("{}-{}", t, t), format!("{}{}", t, t), format!("{}abcdefgh", t)] {
                ctx.evals += 1;
                if (*v == c.as_str()) != (c == t) || (*v == *c.as_str()) != (c == t) {
                    viol(ctx, "subtag-eq-str", json!({"type": "variant", "value": t, "str": c}), format!("Variant {:?} == {:?} is {}", t, c, *v == c.as_str()));
                }
            }
        }
    }
    // subtag ordering and hashing agree with their text
    if ctx.shard == 0 {
        let mut langs: Vec<Language> = pool.iter().map(|p| p.loc.id.language).collect();
        langs.sort();
        langs.dedup();
        for w in langs.windows(2) {
            ctx.evals += 1;
            let (x, y) = (w[0], w[1]);
            let kx = if x.is_empty() { None } else { Some(x.as_str()) };
            let ky = if y.is_empty() { None } else { Some(y.as_str()) };
            if kx >= ky {
                viol(ctx, "subtag-order", json!({"a": x.as_str(), "b": y.as_str()}), "Language order is not text order with 'und' first".into());
            }
        }
        let mut scripts: Vec<Script> = pool.iter().filter_map(|p| p.loc.id.script).collect();
        scripts.sort();
        scripts.dedup();
        if scripts.windows(2).any(|w| w[0].as_str() >= w[1].as_str()) {
            viol(ctx, "subtag-order", json!({"type": "script"}), "Script order is not text order".into());
        }
        let mut regions: Vec<Region> = pool.iter().filter_map(|p| p.loc.id.region).collect();
        regions.sort();
        regions.dedup();
        if regions.windows(2).any(|w| w[0].as_str() >= w[1].as_str()) {
            viol(ctx, "subtag-order", json!({"type": "region"}), "Region order is not text order".into());
        }
    }
    // every ordered pair of the distinct subtags of the pool, each reached by three routes (taken from a parsed
    // value, parsed again from its upper-cased text, rebuilt from its integer form): equality, hashing and order
    // of the four subtag types must follow their text
    if ctx.shard == 0 {
        fn all_pairs<T: Copy + Eq + Ord + Hash>(ctx: &mut Ctx, ty: &'static str, items: &[(T, String, &'static str)], und_first: bool) {
            let hs: Vec<u64> = items.iter().map(|x| h64(&x.0)).collect();
            let mut pairs = 0u64;
            for (i, (x, tx, rx)) in items.iter().enumerate() {
                for (j, (y, ty_, ry)) in items.iter().enumerate() {
                    pairs += 1;
                    let teq = tx == ty_;
                    let c = x.cmp(y);
                    let want = if und_first {
                        let k = |t: &String| if t == "und" { None } else { Some(t.clone()) };
                        k(tx).cmp(&k(ty_))
                    } else {
                        tx.cmp(ty_)
                    };
                    if (x == y) != teq || (teq && hs[i] != hs[j]) || c != want || y.cmp(x) != c.reverse() || x.partial_cmp(y) != Some(c) {
                        viol(ctx, "subtag-pair", json!({"type": ty, "a": tx, "b": ty_, "route_a": rx, "route_b": ry}), format!("{} {:?} ({}) vs {:?} ({}): == is {}, hashes {}, cmp {:?} (text order {:?})", ty, tx, rx, ty_, ry, x == y, if hs[i] == hs[j] { "equal" } else { "differ" }, c, want));
                    }
                }
            }
            ctx.evals += pairs;
            ctx.count_n("subtag-pairs (all ordered pairs of distinct subtags x 3 routes)", pairs);
        }
        let cap = if quick { 400 } else { 1500 };
        let mut langs: Vec<Language> = pool.iter().map(|p| p.loc.id.language).collect();
        langs.sort();
        langs.dedup();
        langs.truncate(cap);
        let mut li: Vec<(Language, String, &'static str)> = vec![];
        for l in langs {
            let t = l.as_str().to_string();
            li.push((l, t.clone(), "value"));
            if let Ok(m) = Language::from_bytes(t.to_ascii_uppercase().as_bytes()) {
                li.push((m, t.clone(), "from_bytes(upper case)"));
            }
            let raw: Option<u64> = l.into();
            if let Ok(m) = guard(|| unsafe { Language::from_raw_unchecked(raw.unwrap_or(0)) }) {
                if raw.is_some() {
                    li.push((m, t.clone(), "from_raw_unchecked"));
                }
            }
        }
        all_pairs(ctx, "language", &li, true);
        let mut scripts: Vec<Script> = pool.iter().filter_map(|p| p.loc.id.script).collect();
        scripts.sort();
        scripts.dedup();
        scripts.truncate(cap);
        let mut si: Vec<(Script, String, &'static str)> = vec![];
        for x in scripts {
            let t = x.as_str().to_string();
            si.push((x, t.clone(), "value"));
            if let Ok(m) = Script::from_bytes(t.to_ascii_uppercase().as_bytes()) {
                si.push((m, t.clone(), "from_bytes(upper case)"));
            }
            if let Ok(m) = guard(|| unsafe { Script::from_raw_unchecked(x.into()) }) {
                si.push((m, t.clone(), "from_raw_unchecked"));
            }
        }
        all_pairs(ctx, "script", &si, false);
        let mut regions: Vec<Region> = pool.iter().filter_map(|p| p.loc.id.region).collect();
        regions.sort();
        regions.dedup();
        regions.truncate(cap);
        let mut ri: Vec<(Region, String, &'static str)> = vec![];
        for x in regions {
            let t = x.as_str().to_string();
            ri.push((x, t.clone(), "value"));
            if let Ok(m) = Region::from_bytes(t.to_ascii_lowercase().as_bytes()) {
                ri.push((m, t.clone(), "from_bytes(lower case)"));
            }
            if let Ok(m) = guard(|| unsafe { Region::from_raw_unchecked(x.into()) }) {
                ri.push((m, t.clone(), "from_raw_unchecked"));
            }
        }
        all_pairs(ctx, "region", &ri, false);
        let mut vars: Vec<Variant> = pool.iter().flat_map(|p| p.loc.id.variants().cloned().collect::<Vec<_>>()).collect();
        vars.sort();
        vars.dedup();
        vars.truncate(cap);
        let mut vi: Vec<(Variant, String, &'static str)> = vec![];
        for x in vars {
            let t = x.as_str().to_string();
            vi.push((x, t.clone(), "value"));
            if let Ok(m) = Variant::from_bytes(t.to_ascii_uppercase().as_bytes()) {
                vi.push((m, t.clone(), "from_bytes(upper case)"));
            }
            if let Ok(m) = guard(|| unsafe { Variant::from_raw_unchecked(x.into()) }) {
                vi.push((m, t.clone(), "from_raw_unchecked"));
            }
        }
        all_pairs(ctx, "variant", &vi, false);
    }
    mon::idle();
    for it in pool.iter().take(2) {
        ctx.sample("pool", || json!({"value": it.s, "route": it.route}));
    }
    ctx.extra.insert("floors".into(), json!({"pairs:equal-by-string,different-routes": 1000, "pairs:different": 100000, "str-eq:true": 100, "str-eq:false": 500}));
}
