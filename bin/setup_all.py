"""MANIFEST setup_cmd: build every flavour from files on disk, offline, so that the first
check after a fresh restore does not pay for cold builds."""
import os
import subprocess
import sys
import time

VERIF = os.path.dirname(os.path.dirname(os.path.abspath(__file__)))


def main():
    t0 = time.time()
    p = subprocess.run([sys.executable, os.path.join(VERIF, "bin", "check"), "warm"], cwd=VERIF)
    print("setup finished in %.0f s (rc=%d)" % (time.time() - t0, p.returncode), flush=True)
    return p.returncode


if __name__ == "__main__":
    sys.exit(main())
