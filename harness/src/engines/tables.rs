//! C18: invariant walker over the compiled lookup tables (exposed by the cfg(unic_locale_verif) hook).

use crate::likely::{Dir, DirData, Likely, Triple};
use crate::mon::{self, Ctx, SigH};
use crate::refspec;
use serde_json::json;
use std::collections::BTreeSet;
use unic_langid_impl::subtags::{Language, Region, Script};

type Val = crate::hooktab::NVal;

fn dec64(x: u64) -> Result<String, String> {
    let b = x.to_le_bytes();
    let n = b.iter().position(|c| *c == 0).unwrap_or(8);
    if b[n..].iter().any(|c| *c != 0) {
        return Err(format!("{:#x}: non-zero byte above the terminator", x));
    }
    String::from_utf8(b[..n].to_vec()).map_err(|_| format!("{:#x}: not ASCII", x))
}
fn dec32(x: u64) -> Result<String, String> {
    if x > u32::MAX as u64 {
        return Err(format!("{:#x}: does not fit the 32-bit integer form of a script / region subtag", x));
    }
    let b = (x as u32).to_le_bytes();
    let n = b.iter().position(|c| *c == 0).unwrap_or(4);
    if b[n..].iter().any(|c| *c != 0) {
        return Err(format!("{:#x}: non-zero byte above the terminator", x));
    }
    String::from_utf8(b[..n].to_vec()).map_err(|_| format!("{:#x}: not ASCII", x))
}
fn lang_ok(x: u64) -> Result<String, String> {
    let s = dec64(x)?;
    if refspec::is_lang(s.as_bytes()) && s == s.to_ascii_lowercase() {
        Ok(s)
    } else {
        Err(format!("{:?} is not a well-formed lower-case language subtag", s))
    }
}
fn script_ok(x: u64) -> Result<String, String> {
    let s = dec32(x)?;
    if refspec::is_script(s.as_bytes()) && s == refspec::title(s.as_bytes()) {
        Ok(s)
    } else {
        Err(format!("{:?} is not a well-formed title-case script subtag", s))
    }
}
fn region_ok(x: u64) -> Result<String, String> {
    let s = dec32(x)?;
    if refspec::is_region(s.as_bytes()) && s == s.to_ascii_uppercase() {
        Ok(s)
    } else {
        Err(format!("{:?} is not a well-formed upper-case region subtag", s))
    }
}

struct Walk<'a> {
    ctx: &'a mut Ctx,
    unsafe_calls: u64,
}

impl<'a> Walk<'a> {
    fn bad(&mut self, clause: &str, table: &str, row: usize, detail: String) {
        self.ctx.viol_total += 1;
        self.ctx.count_dyn(&format!("violation:{}", clause));
        if self.ctx.may_minimise(clause) {
            self.ctx.add_violation(clause, json!({"table": table, "row": row}), json!(null), detail);
        }
    }
    /// decode + push through the unchecked constructors (what the lookups do with table values)
    fn value(&mut self, table: &str, row: usize, v: &Val) -> Option<Triple> {
        let mut ok = true;
        let l = match v.0 {
            None => {
                self.bad("value-without-language", table, row, "table value has no language (lookup unwraps it)".into());
                ok = false;
                String::new()
            }
            Some(x) => match lang_ok(x) {
                Ok(s) => {
                    let t = unsafe { Language::from_raw_unchecked(x) };
                    self.unsafe_calls += 1;
                    if t.as_str() != s || Language::from_bytes(s.as_bytes()) != Ok(t) {
                        self.bad("raw-roundtrip", table, row, format!("Language::from_raw_unchecked({}) reads as {:?}, bytes decode to {:?}", x, t.as_str(), s));
                    }
                    s
                }
                Err(e) => {
                    self.bad("malformed-integer", table, row, format!("value language: {}", e));
                    ok = false;
                    String::new()
                }
            },
        };
        let s = match v.1 {
            None => None,
            Some(x) => match script_ok(x) {
                Ok(s) => {
                    let t = unsafe { Script::from_raw_unchecked(x as u32) };
                    self.unsafe_calls += 1;
                    if t.as_str() != s || Script::from_bytes(s.as_bytes()) != Ok(t) {
                        self.bad("raw-roundtrip", table, row, format!("Script::from_raw_unchecked({}) reads as {:?}, bytes decode to {:?}", x, t.as_str(), s));
                    }
                    Some(s)
                }
                Err(e) => {
                    self.bad("malformed-integer", table, row, format!("value script: {}", e));
                    ok = false;
                    None
                }
            },
        };
        let r = match v.2 {
            None => None,
            Some(x) => match region_ok(x) {
                Ok(s) => {
                    let t = unsafe { Region::from_raw_unchecked(x as u32) };
                    self.unsafe_calls += 1;
                    if t.as_str() != s || Region::from_bytes(s.as_bytes()) != Ok(t) {
                        self.bad("raw-roundtrip", table, row, format!("Region::from_raw_unchecked({}) reads as {:?}, bytes decode to {:?}", x, t.as_str(), s));
                    }
                    Some(s)
                }
                Err(e) => {
                    self.bad("malformed-integer", table, row, format!("value region: {}", e));
                    ok = false;
                    None
                }
            },
        };
        if ok && (s.is_none() || r.is_none()) {
            self.bad("value-incomplete", table, row, format!("table value {}-{:?}-{:?} lacks a script or region", l, s, r));
        }
        ok.then_some((l, s, r))
    }
    fn key_l(&mut self, table: &str, row: usize, x: u64) -> Option<String> {
        match lang_ok(x) {
            Ok(s) => {
                let t = unsafe { Language::from_raw_unchecked(x) };
                self.unsafe_calls += 1;
                if t.as_str() != s {
                    self.bad("raw-roundtrip", table, row, format!("key language {} reads as {:?} / {:?}", x, t.as_str(), s));
                }
                Some(s)
            }
            Err(e) => {
                self.bad("malformed-integer", table, row, format!("key language: {}", e));
                None
            }
        }
    }
    fn key_s(&mut self, table: &str, row: usize, x: u64) -> Option<String> {
        match script_ok(x) {
            Ok(s) => {
                let t = unsafe { Script::from_raw_unchecked(x as u32) };
                self.unsafe_calls += 1;
                if t.as_str() != s {
                    self.bad("raw-roundtrip", table, row, format!("key script {} reads as {:?} / {:?}", x, t.as_str(), s));
                }
                Some(s)
            }
            Err(e) => {
                self.bad("malformed-integer", table, row, format!("key script: {}", e));
                None
            }
        }
    }
    fn key_r(&mut self, table: &str, row: usize, x: u64) -> Option<String> {
        match region_ok(x) {
            Ok(s) => {
                let t = unsafe { Region::from_raw_unchecked(x as u32) };
                self.unsafe_calls += 1;
                if t.as_str() != s {
                    self.bad("raw-roundtrip", table, row, format!("key region {} reads as {:?} / {:?}", x, t.as_str(), s));
                }
                Some(s)
            }
            Err(e) => {
                self.bad("malformed-integer", table, row, format!("key region: {}", e));
                None
            }
        }
    }
}

fn fmt_key(l: Option<&str>, s: Option<&str>, r: Option<&str>) -> String {
    let mut k = l.unwrap_or("und").to_string();
    if let Some(x) = s {
        k.push('-');
        k.push_str(x);
    }
    if let Some(x) = r {
        k.push('-');
        k.push_str(x);
    }
    k
}
fn fmt_val(t: &Triple) -> String {
    fmt_key(Some(&t.0), t.1.as_deref(), t.2.as_deref())
}

/// Lean walk for the UB interpreter: every stored integer of this shard's rows goes through the
/// matching unchecked constructor and is read back (an out-of-range byte is UB and reported).
fn miri_walk(ctx: &mut Ctx) {
    let tb = crate::hooktab::load();
    let (sh, n) = (ctx.shard, ctx.nshards);
    let mut calls = 0u64;
    let mut bad = 0u64;
    let mut val = |v: &Val| {
        if let Some(x) = v.0 {
            let t = unsafe { Language::from_raw_unchecked(x) };
            calls += 1;
            // (the bare-und row stores the text "und" as its key; it is well-formed but denotes the
            // empty language when parsed, so only the text is compared for it)
            let same_text = dec64(x).map_or(false, |s| s == t.as_str());
            if !same_text || (t.as_str() != "und" && Language::from_bytes(t.as_str().as_bytes()) != Ok(t)) {
                bad += 1;
            }
        }
        if let Some(x) = v.1 {
            let t = unsafe { Script::from_raw_unchecked(x as u32) };
            calls += 1;
            if Script::from_bytes(t.as_str().as_bytes()) != Ok(t) {
                bad += 1;
            }
        }
        if let Some(x) = v.2 {
            let t = unsafe { Region::from_raw_unchecked(x as u32) };
            calls += 1;
            if Region::from_bytes(t.as_str().as_bytes()) != Ok(t) {
                bad += 1;
            }
        }
    };
    let mut rows = 0u64;
    for (i, (k, v)) in tb.lang_only.iter().enumerate() {
        if i % n == sh {
            val(&(Some(*k), None, None));
            val(v);
            rows += 1;
        }
    }
    for (i, (k, k2, v)) in tb.lang_region.iter().enumerate() {
        if i % n == sh {
            val(&(Some(*k), None, Some(*k2)));
            val(v);
            rows += 1;
        }
    }
    for (i, (k, k2, v)) in tb.lang_script.iter().enumerate() {
        if i % n == sh {
            val(&(Some(*k), Some(*k2), None));
            val(v);
            rows += 1;
        }
    }
    for (i, (k, k2, v)) in tb.script_region.iter().enumerate() {
        if i % n == sh {
            val(&(None, Some(*k), Some(*k2)));
            val(v);
            rows += 1;
        }
    }
    for (i, (k, v)) in tb.script_only.iter().enumerate() {
        if i % n == sh {
            val(&(None, Some(*k), None));
            val(v);
            rows += 1;
        }
    }
    for (i, (k, v)) in tb.region_only.iter().enumerate() {
        if i % n == sh {
            val(&(None, None, Some(*k)));
            val(v);
            rows += 1;
        }
    }
    if sh == 0 {
        for x in tb.dir_ltr.iter().chain(tb.dir_rtl.iter()).chain(tb.dir_ttb.iter()) {
            val(&(None, Some(*x), None));
            rows += 1;
        }
        for x in tb.rtl_langs.iter() {
            val(&(Some(*x), None, None));
            rows += 1;
        }
    }
    ctx.evals += rows;
    ctx.count_n("miri:rows", rows);
    ctx.count_n("miri:unsafe-constructor-calls", calls);
    if bad > 0 {
        ctx.viol_total += bad;
        ctx.add_violation("raw-roundtrip", json!({"under": "miri", "shard": sh}), json!(null), format!("{} stored integers do not read back as the subtag their bytes spell", bad));
    }
}

pub fn run_c18(ctx: &mut Ctx) {
    if cfg!(miri) {
        miri_walk(ctx);
        return;
    }
    // the walk is cheap: shard 0 does it, the others report nothing (keeps counts exact)
    if ctx.shard != 0 {
        return;
    }
    let tb = crate::hooktab::load();
    let mut rows: Vec<(String, String, &'static str)> = vec![]; // (key, value, table)
    let mut w = Walk { ctx, unsafe_calls: 0 };
    // "strictly increasing in the integer key order that the lookup's binary search uses": the walker cannot see the
    // comparator, so it accepts the two integer orders a search over these packed keys can use - the stored integer
    // itself, or the integer with its bytes swapped (= the order of the text) - and separately requires that the
    // library's own lookup finds every row (below: `row-not-found-by-lookup`), which is what "the order the search
    // uses" means observably. A table that is increasing in neither order is reported.
    let mut recognised: Vec<(&'static str, &'static str)> = vec![];
    macro_rules! order {
        ($name:expr, $tab:expr, $key:expr, $swapped:expr) => {{
            let mut prev = None;
            let mut prev_sw = None;
            let (mut native_ok, mut swapped_ok) = (true, true);
            let mut first_bad: Option<(usize, String)> = None;
            for (i, row) in $tab.iter().enumerate() {
                mon::begin_case($name.as_bytes());
                w.ctx.evals += 1;
                w.ctx.count("rows");
                let k = $key(row);
                let ks = $swapped(row);
                if let Some(p) = prev {
                    if !(p < k) {
                        native_ok = false;
                        if first_bad.is_none() {
                            first_bad = Some((i, format!("{} row {}: key {:?} does not follow {:?}", $name, i, k, p)));
                        }
                    }
                }
                if let Some(p) = prev_sw {
                    if !(p < ks) {
                        swapped_ok = false;
                    }
                }
                prev = Some(k);
                prev_sw = Some(ks);
            }
            if native_ok {
                recognised.push(($name, "stored integers (little-endian packed text)"));
            } else if swapped_ok {
                recognised.push(($name, "byte-swapped integers (text order)"));
            } else if let Some((i, d)) = first_bad {
                w.bad("not-strictly-increasing", $name, i, format!("{} - the table is strictly increasing neither by the stored integers nor by the byte-swapped integers, the key orders a binary search over it can use", d));
            }
        }};
    }
    order!("LANG_ONLY", tb.lang_only, |r: &(u64, Val)| r.0, |r: &(u64, Val)| r.0.swap_bytes());
    order!("LANG_REGION", tb.lang_region, |r: &(u64, u64, Val)| (r.0, r.1), |r: &(u64, u64, Val)| (r.0.swap_bytes(), r.1.swap_bytes()));
    order!("LANG_SCRIPT", tb.lang_script, |r: &(u64, u64, Val)| (r.0, r.1), |r: &(u64, u64, Val)| (r.0.swap_bytes(), r.1.swap_bytes()));
    order!("SCRIPT_REGION", tb.script_region, |r: &(u64, u64, Val)| (r.0, r.1), |r: &(u64, u64, Val)| (r.0.swap_bytes(), r.1.swap_bytes()));
    order!("SCRIPT_ONLY", tb.script_only, |r: &(u64, Val)| r.0, |r: &(u64, Val)| r.0.swap_bytes());
    order!("REGION_ONLY", tb.region_only, |r: &(u64, Val)| r.0, |r: &(u64, Val)| r.0.swap_bytes());

    for (i, (k, v)) in tb.lang_only.iter().enumerate() {
        let kl = w.key_l("LANG_ONLY", i, *k);
        let vv = w.value("LANG_ONLY", i, v);
        if let (Some(kl), Some(vv)) = (kl, vv) {
            rows.push((fmt_key(Some(&kl), None, None), fmt_val(&vv), "LANG_ONLY"));
        }
    }
    for (i, (k, k2, v)) in tb.lang_region.iter().enumerate() {
        let (a, b) = (w.key_l("LANG_REGION", i, *k), w.key_r("LANG_REGION", i, *k2));
        let vv = w.value("LANG_REGION", i, v);
        if let (Some(a), Some(b), Some(vv)) = (a, b, vv) {
            rows.push((fmt_key(Some(&a), None, Some(&b)), fmt_val(&vv), "LANG_REGION"));
        }
    }
    for (i, (k, k2, v)) in tb.lang_script.iter().enumerate() {
        let (a, b) = (w.key_l("LANG_SCRIPT", i, *k), w.key_s("LANG_SCRIPT", i, *k2));
        let vv = w.value("LANG_SCRIPT", i, v);
        if let (Some(a), Some(b), Some(vv)) = (a, b, vv) {
            rows.push((fmt_key(Some(&a), Some(&b), None), fmt_val(&vv), "LANG_SCRIPT"));
        }
    }
    for (i, (k, k2, v)) in tb.script_region.iter().enumerate() {
        let (a, b) = (w.key_s("SCRIPT_REGION", i, *k), w.key_r("SCRIPT_REGION", i, *k2));
        let vv = w.value("SCRIPT_REGION", i, v);
        if let (Some(a), Some(b), Some(vv)) = (a, b, vv) {
            rows.push((fmt_key(None, Some(&a), Some(&b)), fmt_val(&vv), "SCRIPT_REGION"));
        }
    }
    for (i, (k, v)) in tb.script_only.iter().enumerate() {
        let a = w.key_s("SCRIPT_ONLY", i, *k);
        let vv = w.value("SCRIPT_ONLY", i, v);
        if let (Some(a), Some(vv)) = (a, vv) {
            rows.push((fmt_key(None, Some(&a), None), fmt_val(&vv), "SCRIPT_ONLY"));
        }
    }
    for (i, (k, v)) in tb.region_only.iter().enumerate() {
        let a = w.key_r("REGION_ONLY", i, *k);
        let vv = w.value("REGION_ONLY", i, v);
        if let (Some(a), Some(vv)) = (a, vv) {
            rows.push((fmt_key(None, None, Some(&a)), fmt_val(&vv), "REGION_ONLY"));
        }
    }
    // direction tables: decode, no duplicates
    let mut dir_sets: Vec<(&'static str, BTreeSet<String>)> = vec![];
    for (name, tab) in [
        ("SCRIPTS_CHARACTER_DIRECTION_LTR", &tb.dir_ltr[..]),
        ("SCRIPTS_CHARACTER_DIRECTION_RTL", &tb.dir_rtl[..]),
        ("SCRIPTS_CHARACTER_DIRECTION_TTB", &tb.dir_ttb[..]),
    ] {
        let mut set = BTreeSet::new();
        for (i, x) in tab.iter().enumerate() {
            w.ctx.evals += 1;
            w.ctx.count("rows");
            if let Some(s) = w.key_s(name, i, *x) {
                if !set.insert(s.clone()) {
                    w.bad("duplicate-row", name, i, format!("{} listed twice", s));
                }
            }
        }
        dir_sets.push((name, set));
    }
    let mut rtl_langs = BTreeSet::new();
    for (i, x) in tb.rtl_langs.iter().enumerate() {
        w.ctx.evals += 1;
        w.ctx.count("rows");
        if let Some(s) = w.key_l("LANGS_CHARACTER_DIRECTION_RTL", i, *x) {
            if !rtl_langs.insert(s.clone()) {
                w.bad("duplicate-row", "LANGS_CHARACTER_DIRECTION_RTL", i, format!("{} listed twice", s));
            }
        }
    }
    let unsafe_calls = w.unsafe_calls;
    let ctx = w.ctx;
    ctx.count_n("unsafe-constructor-calls", unsafe_calls);
    for (k, v, t) in rows.iter().take(3) {
        ctx.sample("row", || json!({"table": t, "key": k, "value": v}));
    }
    for (k, _, t) in &rows {
        ctx.sig(SigH::new(18).b(t.as_bytes()).b(k.as_bytes()).fin());
    }
    // the observable meaning of "the order the lookup's binary search uses": the library's own lookup, asked for
    // exactly the key of a row, finds that row
    ctx.extra.insert("key_order_recognised".into(), json!(recognised.iter().map(|(t, o)| json!({"table": t, "strictly_increasing_by": o})).collect::<Vec<_>>()));
    if !cfg!(miri) {
        for (i, (k, v, t)) in rows.iter().enumerate() {
            if k == "und" {
                continue;
            }
            let Ok(mut li) = k.parse::<unic_langid_impl::LanguageIdentifier>() else { continue };
            mon::begin_case(k.as_bytes());
            ctx.evals += 1;
            ctx.count("rows looked up through the library (maximize of the row's key)");
            match crate::mon::guard(|| {
                li.maximize();
                li.to_string()
            }) {
                Ok(got) if got == *v => {}
                Ok(got) => {
                    ctx.viol_total += 1;
                    ctx.count("violation:row-not-found-by-lookup");
                    if ctx.may_minimise("row-not-found-by-lookup") {
                        ctx.add_violation("row-not-found-by-lookup", json!({"table": t, "row": i, "key": k}), json!(null), format!("{} holds {} -> {}, but looking the key up through the library gives {} (the table is not ordered the way the search walks it, or the search is wrong)", t, k, v, got));
                    }
                }
                Err(p) => {
                    ctx.viol_total += 1;
                    if ctx.may_minimise("row-not-found-by-lookup") {
                        ctx.add_violation("row-not-found-by-lookup", json!({"table": t, "row": i, "key": k}), json!(null), format!("lookup of {} panicked: {}", k, p));
                    }
                }
            }
        }
    }
    if cfg!(miri) {
        // JSON comparison is done by the native run; Miri only watches the unsafe walk
        return;
    }
    mon::idle();
    // compare with the independent re-derivation from the JSON data
    match Likely::load() {
        Err(e) => ctx.notes.push(format!("HARNESS-ERROR {}", e)),
        Ok(lk) => {
            let expect_table = |k: &str| -> &'static str {
                let p: Vec<&str> = k.split('-').collect();
                match (p[0] == "und", p.len()) {
                    (true, 1) => "LANG_ONLY",
                    (false, 1) => "LANG_ONLY",
                    (true, 3) => "SCRIPT_REGION",
                    (true, 2) => {
                        if refspec::is_script(p[1].as_bytes()) {
                            "SCRIPT_ONLY"
                        } else {
                            "REGION_ONLY"
                        }
                    }
                    (false, 2) => {
                        if refspec::is_script(p[1].as_bytes()) {
                            "LANG_SCRIPT"
                        } else {
                            "LANG_REGION"
                        }
                    }
                    _ => "?",
                }
            };
            let mut have: std::collections::BTreeMap<(String, &'static str), Vec<String>> = Default::default();
            for (k, v, t) in &rows {
                have.entry((k.clone(), *t)).or_default().push(v.clone());
            }
            for (k, v) in &lk.entries {
                ctx.evals += 1;
                ctx.count("cldr-entries-compared");
                let t = expect_table(k);
                match have.remove(&(k.clone(), t)) {
                    None => {
                        ctx.viol_total += 1;
                        ctx.add_violation("missing-row", json!({"cldr_key": k, "table": t}), json!(null), format!("CLDR entry {} -> {} has no row in {}", k, v, t));
                    }
                    Some(vs) => {
                        if vs.len() != 1 || vs[0] != *v {
                            ctx.viol_total += 1;
                            ctx.add_violation("wrong-row", json!({"cldr_key": k, "table": t}), json!(null), format!("CLDR entry {} -> {}, table {} has {:?}", k, v, t, vs));
                        }
                    }
                }
            }
            for ((k, t), vs) in have {
                ctx.viol_total += 1;
                ctx.add_violation("extra-row", json!({"key": k, "table": t}), json!(null), format!("table {} has a row {} -> {:?} that is not in likelySubtags.json", t, k, vs));
            }
            ctx.evals += 1;
            if tb.cldr_version != lk.version || unic_langid_impl::likelysubtags::CLDR_VERSION != lk.version {
                ctx.viol_total += 1;
                ctx.add_violation("cldr-version", json!({"advertised": tb.cldr_version}), json!(null), format!("CLDR_VERSION = {:?}, data says {:?}", tb.cldr_version, lk.version));
            }
            ctx.extra.insert("cldr_version".into(), json!({"advertised": tb.cldr_version, "likelySubtags.json": lk.version}));
        }
    }
    match DirData::load() {
        Err(e) => ctx.notes.push(format!("HARNESS-ERROR {}", e)),
        Ok(dd) => {
            for (name, set) in &dir_sets {
                let want_dir = match *name {
                    "SCRIPTS_CHARACTER_DIRECTION_LTR" => Dir::Ltr,
                    "SCRIPTS_CHARACTER_DIRECTION_RTL" => Dir::Rtl,
                    _ => Dir::Ttb,
                };
                let want: BTreeSet<String> = dd.script_dir.iter().filter(|(_, d)| d.contains(&want_dir)).map(|(s, _)| s.clone()).collect();
                ctx.evals += 1;
                ctx.count("direction-tables-compared");
                if *set != want {
                    ctx.viol_total += 1;
                    let missing: Vec<_> = want.difference(set).collect();
                    let extra: Vec<_> = set.difference(&want).collect();
                    ctx.add_violation("direction-table", json!({"table": name}), json!(null), format!("{}: missing {:?}, extra {:?} relative to the CLDR layout files", name, missing, extra));
                }
            }
            ctx.evals += 1;
            ctx.count("direction-tables-compared");
            if rtl_langs != dd.rtl_langs {
                ctx.viol_total += 1;
                let missing: Vec<_> = dd.rtl_langs.difference(&rtl_langs).collect();
                let extra: Vec<_> = rtl_langs.difference(&dd.rtl_langs).collect();
                ctx.add_violation("direction-table", json!({"table": "LANGS_CHARACTER_DIRECTION_RTL"}), json!(null), format!("LANGS_CHARACTER_DIRECTION_RTL: missing {:?}, extra {:?}", missing, extra));
            }
            for (s, d) in &dd.script_dir {
                if d.len() > 1 {
                    ctx.notes.push(format!("CLDR lists script {} with more than one direction: {:?}", s, d));
                }
            }
            ctx.extra.insert("layout_version".into(), json!(dd.version));
        }
    }
    ctx.extra.insert("floors".into(), json!({"rows": 8000, "cldr-entries-compared": 8000, "unsafe-constructor-calls": 30000, "direction-tables-compared": 4}));
}
