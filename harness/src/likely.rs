//! R-likely (dictionary built directly from data/likelySubtags.json, lookup cascade of the
//! C06 statement with its latitude) and R-dir (sets derived from the CLDR layout files).

use crate::gen::repo_root;
use crate::refspec::{self, LangId};
use std::collections::{BTreeMap, BTreeSet, HashMap};

pub type Triple = (String, Option<String>, Option<String>); // lang ("und" = undetermined), script, region

#[derive(Default)]
pub struct Likely {
    pub version: String,
    pub n_entries: usize,
    pub l: HashMap<String, Triple>,
    pub lr: HashMap<(String, String), Triple>,
    pub ls: HashMap<(String, String), Triple>,
    pub sr: HashMap<(String, String), Triple>,
    pub s: HashMap<String, Triple>,
    pub r: HashMap<String, Triple>,
    pub und: Option<Triple>,
    /// every entry as (key string, value string)
    pub entries: Vec<(String, String)>,
}

fn shape(parts: &[&str]) -> Option<(String, Option<String>, Option<String>)> {
    let lang = parts.first()?.to_ascii_lowercase();
    if !(refspec::is_lang(lang.as_bytes())) {
        return None;
    }
    let mut i = 1;
    let mut script = None;
    let mut region = None;
    if i < parts.len() && refspec::is_script(parts[i].as_bytes()) {
        script = Some(refspec::title(parts[i].as_bytes()));
        i += 1;
    }
    if i < parts.len() && refspec::is_region(parts[i].as_bytes()) {
        region = Some(refspec::upper(parts[i].as_bytes()));
        i += 1;
    }
    if i != parts.len() {
        return None;
    }
    Some((lang, script, region))
}

impl Likely {
    pub fn load() -> Result<Likely, String> {
        let p = format!("{}/unic-langid-impl/data/likelySubtags.json", repo_root());
        let s = std::fs::read_to_string(&p).map_err(|e| format!("{}: {}", p, e))?;
        let v: serde_json::Value = serde_json::from_str(&s).map_err(|e| e.to_string())?;
        let mut lk = Likely {
            version: v["supplemental"]["version"]["_cldrVersion"].as_str().unwrap_or("").to_string(),
            ..Default::default()
        };
        let m = v["supplemental"]["likelySubtags"].as_object().ok_or("no likelySubtags object")?;
        for (k, val) in m {
            let val = val.as_str().ok_or("non-string value")?;
            let kp: Vec<&str> = k.split('-').collect();
            let vp: Vec<&str> = val.split('-').collect();
            let key = shape(&kp).ok_or(format!("unrecognised key {}", k))?;
            let value = shape(&vp).ok_or(format!("unrecognised value {}", val))?;
            lk.entries.push((k.clone(), val.to_string()));
            lk.n_entries += 1;
            match (key.0.as_str(), key.1, key.2) {
                ("und", None, None) => lk.und = Some(value),
                ("und", Some(s), Some(r)) => {
                    lk.sr.insert((s, r), value);
                }
                ("und", Some(s), None) => {
                    lk.s.insert(s, value);
                }
                ("und", None, Some(r)) => {
                    lk.r.insert(r, value);
                }
                (l, None, None) => {
                    lk.l.insert(l.to_string(), value);
                }
                (l, Some(s), None) => {
                    lk.ls.insert((l.to_string(), s), value);
                }
                (l, None, Some(r)) => {
                    lk.lr.insert((l.to_string(), r), value);
                }
                _ => return Err(format!("key with language, script and region: {}", k)),
            }
        }
        Ok(lk)
    }

    /// The answer of the lookup cascade in the property statement; None = no entry matches /
    /// all three present ("unchanged").
    pub fn primary(&self, l: &str, s: Option<&str>, r: Option<&str>) -> Option<Triple> {
        let und = l == "und";
        if !und && s.is_some() && r.is_some() {
            return None;
        }
        let keep = |t: &Triple| -> Triple {
            (
                if und { t.0.clone() } else { l.to_string() },
                s.map(|x| x.to_string()).or_else(|| t.1.clone()),
                r.map(|x| x.to_string()).or_else(|| t.2.clone()),
            )
        };
        if !und {
            if let Some(r) = r {
                if let Some(t) = self.lr.get(&(l.to_string(), r.to_string())) {
                    return Some(t.clone());
                }
            }
            if let Some(s) = s {
                if let Some(t) = self.ls.get(&(l.to_string(), s.to_string())) {
                    return Some(t.clone());
                }
            }
            if let Some(t) = self.l.get(l) {
                return Some(keep(t));
            }
            None
        } else if let Some(s) = s {
            if let Some(r) = r {
                if let Some(t) = self.sr.get(&(s.to_string(), r.to_string())) {
                    return Some(t.clone());
                }
            }
            self.s.get(s).map(keep)
        } else if let Some(r) = r {
            self.r.get(r).cloned()
        } else {
            None
        }
    }

    /// UTS #35 fallbacks the statement allows in place of "unchanged" when `primary` is None.
    pub fn fallbacks(&self, l: &str, s: Option<&str>, r: Option<&str>) -> Vec<Triple> {
        let und = l == "und";
        let mut out = vec![];
        if !und && s.is_some() && r.is_some() {
            return out;
        }
        let fill = |t: &Triple| -> Triple {
            (
                if und { t.0.clone() } else { l.to_string() },
                s.map(|x| x.to_string()).or_else(|| t.1.clone()),
                r.map(|x| x.to_string()).or_else(|| t.2.clone()),
            )
        };
        if !und {
            // unknown language: und_script
            if let Some(sc) = s {
                if let Some(t) = self.s.get(sc) {
                    out.push(fill(t));
                }
            }
        } else {
            // und_region after an unknown script
            if let Some(rg) = r {
                if let Some(t) = self.r.get(rg) {
                    out.push(fill(t));
                }
            }
            // bare und
            if let Some(t) = &self.und {
                out.push(fill(t));
            }
        }
        out
    }

    /// Is `after` an acceptable result of maximizing `before` (language/script/region only)?
    pub fn check_max(&self, l: &str, s: Option<&str>, r: Option<&str>, ans: &Option<Triple>) -> Result<&'static str, String> {
        let p = self.primary(l, s, r);
        match (&p, ans) {
            (Some(e), Some(a)) if e == a => Ok("entry"),
            (Some(e), a) => Err(format!("CLDR answer is {:?}, library answered {:?}", e, a)),
            (None, None) => Ok("unchanged"),
            (None, Some(a)) => {
                if self.fallbacks(l, s, r).iter().any(|f| f == a) {
                    Ok("fallback")
                } else {
                    Err(format!("no entry matches (or all three present), library answered {:?}", a))
                }
            }
        }
    }

    pub fn maximize_acceptable(&self, before: &LangId, after: &LangId) -> Result<(), String> {
        let ans = if (before.lang.as_str(), &before.script, &before.region) == (after.lang.as_str(), &after.script, &after.region) {
            None
        } else {
            Some((after.lang.clone(), after.script.clone(), after.region.clone()))
        };
        self.check_max(&before.lang, before.script.as_deref(), before.region.as_deref(), &ans).map(|_| ())
    }

    /// Reference minimisation, given the maximisation function to use.
    pub fn ref_minimize(&self, l: &str, s: Option<&str>, r: Option<&str>, mx: &dyn Fn(&str, Option<&str>, Option<&str>) -> Option<Triple>) -> Option<Triple> {
        let full = l != "und" && s.is_some() && r.is_some();
        let max: Triple = if full { (l.to_string(), s.map(String::from), r.map(String::from)) } else { mx(l, s, r)? };
        let try_ = |s2: Option<&str>, r2: Option<&str>| -> bool {
            match mx(&max.0, s2, r2) {
                Some(t) => t == max,
                None => false,
            }
        };
        if try_(None, None) {
            return Some((max.0.clone(), None, None));
        }
        if max.2.is_some() && try_(None, max.2.as_deref()) {
            return Some((max.0.clone(), None, max.2.clone()));
        }
        if max.1.is_some() && try_(max.1.as_deref(), None) {
            return Some((max.0.clone(), max.1.clone(), None));
        }
        None
    }

    /// `lib_max` is the library's own maximisation; it is consulted only where the CLDR cascade finds no
    /// entry, and its answer is used only if it is one of the UTS #35 fallbacks the C06 statement allows -
    /// so that a legal fallback (in the input *or in one of the candidate forms*) cannot turn into an alarm here.
    pub fn minimize_acceptable(&self, before: &LangId, after: &LangId, lib_max: &dyn Fn(&str, Option<&str>, Option<&str>) -> Option<Triple>) -> Result<(), String> {
        let mx = |l: &str, s: Option<&str>, r: Option<&str>| -> Option<Triple> {
            let p = self.primary(l, s, r);
            if p.is_some() {
                return p;
            }
            match lib_max(l, s, r) {
                Some(a) if self.fallbacks(l, s, r).iter().any(|f| *f == a) => Some(a),
                _ => None,
            }
        };
        let exp = self.ref_minimize(&before.lang, before.script.as_deref(), before.region.as_deref(), &mx);
        let got = (after.lang.clone(), after.script.clone(), after.region.clone());
        let same = (before.lang.clone(), before.script.clone(), before.region.clone());
        match exp {
            Some(e) => {
                if e == got {
                    Ok(())
                } else {
                    Err(format!("reference minimisation gives {:?}", e))
                }
            }
            None => {
                if got == same {
                    Ok(())
                } else {
                    // latitude case: accept if the result maximises (by fallback) consistently; leave to C08
                    let full = before.lang != "und" && before.script.is_some() && before.region.is_some();
                    if !full && self.primary(&before.lang, before.script.as_deref(), before.region.as_deref()).is_none() && !self.fallbacks(&before.lang, before.script.as_deref(), before.region.as_deref()).is_empty() {
                        Ok(())
                    } else {
                        Err(format!("reference minimisation leaves the identifier unchanged, library gave {:?}", got))
                    }
                }
            }
        }
    }

    /// The subtag universe: every language / script / region occurring in any key or value.
    pub fn universe(&self) -> (Vec<String>, Vec<String>, Vec<String>) {
        let (mut ls, mut ss, mut rs) = (BTreeSet::new(), BTreeSet::new(), BTreeSet::new());
        for (k, v) in &self.entries {
            for x in [k, v] {
                let p: Vec<&str> = x.split('-').collect();
                if let Some((l, s, r)) = shape(&p) {
                    if l != "und" {
                        ls.insert(l);
                    }
                    if let Some(s) = s {
                        ss.insert(s);
                    }
                    if let Some(r) = r {
                        rs.insert(r);
                    }
                }
            }
        }
        (ls.into_iter().collect(), ss.into_iter().collect(), rs.into_iter().collect())
    }
}

// ------------------------------------------------------------------ R-dir

#[derive(Clone, Copy, PartialEq, Eq, Debug, PartialOrd, Ord)]
pub enum Dir {
    Ltr,
    Rtl,
    Ttb,
}

#[derive(Default)]
pub struct DirData {
    /// locale name (as in the directory's layout.json) -> direction
    pub locales: BTreeMap<String, Dir>,
    pub script_dir: BTreeMap<String, BTreeSet<Dir>>,
    pub rtl_langs: BTreeSet<String>,
    pub lang_dirs: BTreeMap<String, BTreeSet<Dir>>,
    pub version: String,
    pub skipped_root: usize,
    multi: BTreeSet<String>,
}

impl DirData {
    pub fn load() -> Result<DirData, String> {
        let base = format!("{}/unic-langid-impl/data/cldr-misc-full/main", repo_root());
        let mut d = DirData::default();
        let rd = std::fs::read_dir(&base).map_err(|e| format!("{}: {}", base, e))?;
        for e in rd.flatten() {
            let p = e.path().join("layout.json");
            let s = std::fs::read_to_string(&p).map_err(|e| format!("{:?}: {}", p, e))?;
            let v: serde_json::Value = serde_json::from_str(&s).map_err(|e| e.to_string())?;
            let main = v["main"].as_object().ok_or("no main")?;
            let (name, body) = main.iter().next().ok_or("empty main")?;
            if name == "root" {
                d.skipped_root += 1;
                continue;
            }
            let co = body["layout"]["orientation"]["characterOrder"].as_str().ok_or("no characterOrder")?;
            let dir = match co {
                "right-to-left" => Dir::Rtl,
                "left-to-right" => Dir::Ltr,
                "top-to-bottom" => Dir::Ttb,
                x => return Err(format!("unknown characterOrder {}", x)),
            };
            if d.version.is_empty() {
                d.version = body["identity"]["version"]["_cldrVersion"].as_str().unwrap_or("").to_string();
            }
            d.locales.insert(name.clone(), dir);
            let parts: Vec<&str> = name.split('-').collect();
            let lang = parts[0].to_ascii_lowercase();
            d.lang_dirs.entry(lang.clone()).or_default().insert(dir);
            if dir == Dir::Rtl {
                d.rtl_langs.insert(lang);
            }
            if let Some(sc) = parts.get(1).filter(|p| refspec::is_script(p.as_bytes())) {
                d.script_dir.entry(refspec::title(sc.as_bytes())).or_default().insert(dir);
            }
        }
        d.multi = d.lang_dirs.iter().filter(|(_, x)| x.len() > 1).map(|(l, _)| l.clone()).collect();
        Ok(d)
    }
    /// direction of a script CLDR lists with exactly one direction
    pub fn script(&self, s: &str) -> Option<Dir> {
        self.script_dir.get(s).filter(|d| d.len() == 1).and_then(|d| d.iter().next().copied())
    }
    pub fn multi_direction_langs(&self) -> &BTreeSet<String> {
        &self.multi
    }
}
