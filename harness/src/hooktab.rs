//! Width-agnostic view of the tables exposed by the cfg(unic_locale_verif) hook. The walker (C18) and the Miri
//! workload of C06 read the compiled tables through this module only, so a change of the integer types the
//! tables are stored in (u64 / u32 / u16 columns) still compiles here and is judged, instead of breaking the
//! build of the whole harness.

use unic_langid_impl::verif_hooks as hk;

pub type NVal = (Option<u64>, Option<u64>, Option<u64>);

pub struct Tables {
    pub lang_only: Vec<(u64, NVal)>,
    pub lang_region: Vec<(u64, u64, NVal)>,
    pub lang_script: Vec<(u64, u64, NVal)>,
    pub script_region: Vec<(u64, u64, NVal)>,
    pub script_only: Vec<(u64, NVal)>,
    pub region_only: Vec<(u64, NVal)>,
    pub dir_ltr: Vec<u64>,
    pub dir_rtl: Vec<u64>,
    pub dir_ttb: Vec<u64>,
    pub rtl_langs: Vec<u64>,
    pub cldr_version: String,
}

fn nv<A: Copy + Into<u64>, B: Copy + Into<u64>, C: Copy + Into<u64>>(v: &(Option<A>, Option<B>, Option<C>)) -> NVal {
    (v.0.map(Into::into), v.1.map(Into::into), v.2.map(Into::into))
}
fn one<K: Copy + Into<u64>, A: Copy + Into<u64>, B: Copy + Into<u64>, C: Copy + Into<u64>>(t: &[(K, (Option<A>, Option<B>, Option<C>))]) -> Vec<(u64, NVal)> {
    t.iter().map(|(k, v)| ((*k).into(), nv(v))).collect()
}
fn two<K: Copy + Into<u64>, L: Copy + Into<u64>, A: Copy + Into<u64>, B: Copy + Into<u64>, C: Copy + Into<u64>>(t: &[(K, L, (Option<A>, Option<B>, Option<C>))]) -> Vec<(u64, u64, NVal)> {
    t.iter().map(|(k, l, v)| ((*k).into(), (*l).into(), nv(v))).collect()
}
fn list<K: Copy + Into<u64>>(t: &[K]) -> Vec<u64> {
    t.iter().map(|k| (*k).into()).collect()
}

pub fn load() -> Tables {
    Tables {
        lang_only: one(&hk::LANG_ONLY[..]),
        lang_region: two(&hk::LANG_REGION[..]),
        lang_script: two(&hk::LANG_SCRIPT[..]),
        script_region: two(&hk::SCRIPT_REGION[..]),
        script_only: one(&hk::SCRIPT_ONLY[..]),
        region_only: one(&hk::REGION_ONLY[..]),
        dir_ltr: list(&hk::SCRIPTS_CHARACTER_DIRECTION_LTR[..]),
        dir_rtl: list(&hk::SCRIPTS_CHARACTER_DIRECTION_RTL[..]),
        dir_ttb: list(&hk::SCRIPTS_CHARACTER_DIRECTION_TTB[..]),
        rtl_langs: list(&hk::LANGS_CHARACTER_DIRECTION_RTL[..]),
        cldr_version: hk::CLDR_VERSION.to_string(),
    }
}
