"""MANIFEST setup_cmd: build every flavour from files on disk, offline."""
import os
import subprocess
import sys

VERIF = os.path.dirname(os.path.dirname(os.path.abspath(__file__)))
ENV = dict(os.environ, CARGO_NET_OFFLINE="true", CARGO_TERM_COLOR="never")


def sh(cmd, cwd, env=None, fatal=True):
    e = dict(ENV)
    if env:
        e.update(env)
    print("+", " ".join(cmd), "(cwd=%s)" % cwd, flush=True)
    p = subprocess.run(cmd, cwd=cwd, env=e)
    if p.returncode != 0 and fatal:
        print("setup step failed:", cmd, file=sys.stderr)
        sys.exit(1)
    return p.returncode


def main():
    h = os.path.join(VERIF, "harness")
    sh(["cargo", "build", "--release"], h)
    return 0


if __name__ == "__main__":
    sys.exit(main())
