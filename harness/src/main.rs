//! vmon — runtime monitors for unic-locale. One binary, one sub-command per engine.
//!
//!   vmon run <engine> --tier quick|thorough --seed N --shard i/N [--sigfile PATH]
//!   vmon replay <engine> <hex-bytes>
//!   vmon list
use vmon::{engines, gen, model, mon, rng};

use mon::{Ctx, Tier};
use serde_json::json;

fn arg_after(args: &[String], flag: &str) -> Option<String> {
    args.iter().position(|a| a == flag).and_then(|i| args.get(i + 1).cloned())
}

fn main() {
    let args: Vec<String> = std::env::args().collect();
    mon::install_panic_hook();
    let engines = engines::engines();
    match args.get(1).map(|s| s.as_str()) {
        Some("list") => {
            for e in &engines {
                println!("{} {}", e.name, e.prop);
            }
        }
        Some("run") => {
            let name = args.get(2).expect("engine name");
            let e = engines.iter().find(|e| e.name == *name).unwrap_or_else(|| {
                eprintln!("unknown engine {}", name);
                std::process::exit(2)
            });
            let tier = match arg_after(&args, "--tier").as_deref() {
                Some("thorough") => Tier::Thorough,
                _ => Tier::Quick,
            };
            let seed: u64 = arg_after(&args, "--seed").and_then(|s| s.parse().ok()).unwrap_or(1);
            let (shard, nshards) = arg_after(&args, "--shard")
                .and_then(|s| {
                    let (a, b) = s.split_once('/')?;
                    Some((a.parse().ok()?, b.parse().ok()?))
                })
                .unwrap_or((0usize, 1usize));
            let sigfile = arg_after(&args, "--sigfile");
            let mut ctx = Ctx::new(e.prop, e.name, tier, seed, shard, nshards);
            mon::start_watchdog(&format!("{} shard {}/{}", e.name, shard, nshards));
            let t0 = std::time::Instant::now();
            (e.run)(&mut ctx);
            mon::idle();
            ctx.extra.insert("worker_wall_s".into(), json!(t0.elapsed().as_secs_f64()));
            if let Some(p) = &sigfile {
                if let Err(err) = ctx.write_sigs(p) {
                    eprintln!("cannot write {}: {}", p, err);
                    std::process::exit(2);
                }
            }
            println!("{}", ctx.summary(sigfile.as_deref()));
        }
        Some("replay") => {
            let name = args.get(2).expect("engine name");
            let e = engines.iter().find(|e| e.name == *name).unwrap_or_else(|| {
                eprintln!("unknown engine {}", name);
                std::process::exit(2)
            });
            let Some(f) = e.replay_bytes else {
                eprintln!("engine {} has no byte replay", name);
                std::process::exit(2)
            };
            let bytes = mon::unhex(args.get(3).expect("hex bytes"));
            let fails = f(&bytes);
            let out: Vec<_> = fails.iter().map(|f| json!({"clause": f.clause, "detail": f.detail})).collect();
            println!("{}", json!({"engine": name, "input": mon::bytes_json(&bytes), "fails": out}));
            std::process::exit(if fails.is_empty() { 0 } else { 1 });
        }
        Some("gen-probe-input") => {
            // script for /verif/cfgprobe (C20): P / H / M lines, deterministic in (tier, seed)
            use std::io::Write;
            let quick = arg_after(&args, "--tier").as_deref() != Some("thorough");
            let seed: u64 = arg_after(&args, "--seed").and_then(|s| s.parse().ok()).unwrap_or(1);
            let out = std::io::stdout();
            let mut out = std::io::BufWriter::new(out.lock());
            gen::enum_seq(gen::WIDE, 3, 0, 1, &mut |b| {
                writeln!(out, "P {}", mon::hex(b)).unwrap();
            });
            gen::enum_seq(gen::NARROW, if quick { 4 } else { 5 }, 0, 1, &mut |b| {
                writeln!(out, "P {}", mon::hex(b)).unwrap();
            });
            gen::enum_lex(0, 1, &mut |b| {
                writeln!(out, "P {}", mon::hex(b)).unwrap();
            });
            let mut r = rng::Rng::new(rng::mix(&[seed, 0xC20]));
            let n = if quick { 60_000 } else { 600_000 };
            // the calls are pure functions of their input: echo lines (the same input again, directly
            // or after one other call) make a result that depends on the call history visible as a
            // transcript difference between configurations
            let mut prev: Vec<u8> = Vec::new();
            for i in 0..n {
                let sl = gen::gen_sloc(&mut r, true, true);
                let b = gen::render_random(&sl.tokens(), &mut r);
                let b = if i % 2 == 0 { b } else { gen::mutate(&b, &mut r) };
                writeln!(out, "P {}", mon::hex(&b)).unwrap();
                if r.chance(1, 6) {
                    writeln!(out, "P {}", mon::hex(&b)).unwrap();
                }
                if r.chance(1, 12) && !prev.is_empty() {
                    writeln!(out, "P {}", mon::hex(&prev)).unwrap();
                }
                prev = b;
            }
            for s in gen::corpus() {
                writeln!(out, "P {}", mon::hex(s.as_bytes())).unwrap();
            }
            for _ in 0..(if quick { 10_000 } else { 100_000 }) {
                let start = *r.pick(model::START_VALUES);
                let len = 5 + r.below(36);
                let ops: Vec<String> = model::random_history(&mut r, len).iter().map(|o| o.to_probe()).collect();
                writeln!(out, "H {} {}", mon::hex(start.as_bytes()), ops.join(" ")).unwrap();
            }
            for _ in 0..(if quick { 20_000 } else { 200_000 }) {
                let sa = gen::gen_sloc(&mut r, true, true);
                let mut sb = if r.chance(1, 4) { gen::gen_sloc(&mut r, true, true) } else { sa.clone() };
                match r.below(5) {
                    0 => sb.id.script = None,
                    1 => sb.id.region = None,
                    2 => sb.id.variants.clear(),
                    3 => sb.id.lang = "und".into(),
                    _ => {}
                }
                writeln!(out, "M {} {}", mon::hex(&gen::render_random(&sa.tokens(), &mut r)), mon::hex(&gen::render_random(&sb.tokens(), &mut r))).unwrap();
            }
            // all ordered pairs of real-world subtags of one kind in the same position (==, cmp, hash, matches):
            // an ordering or comparison that depends on the configuration shows on particular pairs only
            {
                use vmon::lexicon as lx;
                use vmon::refspec as rs;
                let ok = |l: &'static [&'static str], f: fn(&[u8]) -> bool| -> Vec<&'static str> { l.iter().copied().filter(|w| f(w.as_bytes())).collect() };
                let (ss, rg, vs, ls) = (ok(lx::SCRIPTS, rs::is_script), ok(lx::REGIONS, rs::is_region), ok(lx::VARIANTS, rs::is_variant), ok(lx::LANGS, rs::is_lang));
                let step = if quick { 3 } else { 1 };
                let mut n = 0usize;
                let mut pair = |out: &mut dyn std::io::Write, a: String, b: String| {
                    n += 1;
                    if n % step == 0 {
                        writeln!(out, "M {} {}", mon::hex(a.as_bytes()), mon::hex(b.as_bytes())).unwrap();
                    }
                };
                for a in &ss {
                    for b in &ss {
                        pair(&mut out, format!("mn-{}", a), format!("mn-{}", b));
                    }
                }
                for a in &rg {
                    for b in &rg {
                        pair(&mut out, format!("es-{}", a), format!("es-{}", b));
                    }
                }
                for a in &vs {
                    for b in &vs {
                        pair(&mut out, format!("de-{}", a), format!("de-{}", b));
                    }
                }
                for (i, a) in ls.iter().enumerate() {
                    for b in ls.iter().skip(i % 4).step_by(4) {
                        pair(&mut out, a.to_string(), b.to_string());
                    }
                }
            }
            // comparison pairs over the CLDR likely-subtags corpus: key vs value, value vs key, and the key
            // against the value carrying another script / region (identifiers the data tables know about)
            if let Ok(lk) = vmon::likely::Likely::load() {
                for (i, (k, v)) in lk.entries.iter().enumerate() {
                    if !quick || i % 2 == 0 || k.matches('-').count() >= 1 {
                        writeln!(out, "M {} {}", mon::hex(k.as_bytes()), mon::hex(v.as_bytes())).unwrap();
                        writeln!(out, "M {} {}", mon::hex(v.as_bytes()), mon::hex(k.as_bytes())).unwrap();
                    }
                    let vp: Vec<&str> = v.split('-').collect();
                    if vp.len() == 3 && k.matches('-').count() >= 1 {
                        for alt in ["Latn", "Cyrl", "Arab", "Hans", "Hant"] {
                            if alt != vp[1] {
                                let other = format!("{}-{}-{}", vp[0], alt, vp[2]);
                                writeln!(out, "M {} {}", mon::hex(k.as_bytes()), mon::hex(other.as_bytes())).unwrap();
                                break;
                            }
                        }
                        let other = format!("{}-{}", vp[0], vp[1]);
                        writeln!(out, "M {} {}", mon::hex(k.as_bytes()), mon::hex(other.as_bytes())).unwrap();
                    }
                }
            }
        }
        Some("replay-seq") => {
            // vmon replay-seq <engine> <hex> <hex> ...: run the checker on every input in order (same thread,
            // same process) and report the failures of the LAST one - for violations that depend on the calls before
            let name = args.get(2).expect("engine name");
            let e = engines.iter().find(|e| e.name == *name).unwrap_or_else(|| {
                eprintln!("unknown engine {}", name);
                std::process::exit(2)
            });
            let Some(f) = e.replay_bytes else {
                eprintln!("engine {} has no byte replay", name);
                std::process::exit(2)
            };
            let mut fails = vec![];
            for h in &args[3..] {
                fails = f(&mon::unhex(h));
            }
            let out: Vec<_> = fails.iter().map(|f| json!({"clause": f.clause, "detail": f.detail})).collect();
            println!("{}", json!({"engine": name, "sequence_length": args.len().saturating_sub(3), "fails": out}));
            std::process::exit(if fails.is_empty() { 0 } else { 1 });
        }
        Some("shrink") => {
            // vmon shrink <engine> <clause> <hex>: minimise a failing byte case for one clause
            let name = args.get(2).expect("engine name");
            let clause = args.get(3).expect("clause").clone();
            let e = engines.iter().find(|e| e.name == *name).unwrap_or_else(|| {
                eprintln!("unknown engine {}", name);
                std::process::exit(2)
            });
            let Some(f) = e.replay_bytes else {
                eprintln!("engine {} has no byte replay", name);
                std::process::exit(2)
            };
            let bytes = mon::unhex(args.get(4).expect("hex bytes"));
            let still = |c: &[u8]| f(c).iter().any(|g| g.clause == clause);
            if !still(&bytes) {
                println!("{}", json!({"engine": name, "clause": clause, "reproduced": false}));
                std::process::exit(0);
            }
            // keep a leading tag byte (entry point / mask mode / subtag kind) fixed while shrinking
            let tagged = matches!(name.as_str(), "c01" | "c09" | "c15");
            let min = if tagged && !bytes.is_empty() {
                let tag = bytes[0];
                let body = mon::shrink_bytes(&bytes[1..], &mut |c: &[u8]| {
                    let mut t = vec![tag];
                    t.extend_from_slice(c);
                    still(&t)
                });
                let mut t = vec![tag];
                t.extend_from_slice(&body);
                t
            } else {
                mon::shrink_bytes(&bytes, &mut |c: &[u8]| still(c))
            };
            let detail = f(&min).into_iter().find(|g| g.clause == clause).map(|g| g.detail).unwrap_or_default();
            println!("{}", json!({"engine": name, "clause": clause, "reproduced": true, "min_hex": mon::hex(&min), "min_text": String::from_utf8_lossy(if tagged && !min.is_empty() { &min[1..] } else { &min }), "detail": detail}));
            std::process::exit(1);
        }
        Some("gen-fuzz-corpus") => {
            // seed corpus + dictionary for the libFuzzer targets (harness/fuzz): deterministic in seed
            let dir = args.get(2).expect("output directory").clone();
            let seed: u64 = arg_after(&args, "--seed").and_then(|s| s.parse().ok()).unwrap_or(1);
            std::fs::create_dir_all(format!("{}/parsers", dir)).unwrap();
            std::fs::create_dir_all(format!("{}/history", dir)).unwrap();
            let mut r = rng::Rng::new(rng::mix(&[seed, 0xF022]));
            let mut n = 0usize;
            let put = |sub: &str, b: &[u8], n: &mut usize| {
                std::fs::write(format!("{}/{}/seed-{:05}", dir, sub, *n), b).unwrap();
                *n += 1;
            };
            let corpus = gen::corpus();
            for (i, s) in corpus.iter().enumerate() {
                if i % 9 == 0 {
                    let mut b = s.clone().into_bytes();
                    b.extend_from_slice(gen::SUFFIXES[i % gen::SUFFIXES.len()].as_bytes());
                    put("parsers", &b, &mut n);
                }
            }
            for _ in 0..1500 {
                let sl = gen::gen_sloc(&mut r, true, true);
                put("parsers", &gen::render_random(&sl.tokens(), &mut r), &mut n);
            }
            gen::enum_seq(gen::WIDE, 2, 0, 1, &mut |b| put("parsers", b, &mut n));
            let mut m = 0usize;
            for _ in 0..400 {
                let len = 2 + r.below(40);
                let b: Vec<u8> = (0..len).map(|_| r.below(256) as u8).collect();
                put("history", &b, &mut m);
            }
            let mut dict = String::new();
            let mut toks: Vec<&[u8]> = gen::WIDE.iter().chain(gen::NARROW.iter()).chain(gen::LANGID_ALPHA.iter()).cloned().collect();
            {
                use vmon::lexicon as lx;
                for l in [lx::LANGS, lx::SCRIPTS, lx::REGIONS, lx::VARIANTS, lx::UKEYS, lx::UTYPES, lx::TKEYS, lx::TVALUES] {
                    toks.extend(l.iter().map(|w| w.as_bytes()));
                }
            }
            toks.sort();
            toks.dedup();
            for t in toks {
                if t.is_empty() {
                    continue;
                }
                dict.push('"');
                for c in t {
                    dict.push_str(&format!("\\x{:02x}", c));
                }
                dict.push_str("\"\n");
            }
            for t in ["-u-", "-t-", "-x-", "-true", "_", "-"] {
                dict.push_str(&format!("\"{}\"\n", t));
            }
            std::fs::write(format!("{}/parsers.dict", dir), dict).unwrap();
            println!("{}", json!({"parsers_seeds": n, "history_seeds": m}));
        }
        Some("gen-macro-cases") => {
            // literals for the macro lab (C16): one JSON object per line
            let quick = arg_after(&args, "--tier").as_deref() != Some("thorough");
            let seed: u64 = arg_after(&args, "--seed").and_then(|s| s.parse().ok()).unwrap_or(1);
            for c in engines::macrocases::cases(quick, seed) {
                println!("{}", c);
            }
        }
        Some("replay-json") => {
            let name = args.get(2).expect("engine name");
            let e = engines.iter().find(|e| e.name == *name).unwrap_or_else(|| {
                eprintln!("unknown engine {}", name);
                std::process::exit(2)
            });
            let Some(f) = e.replay_json else {
                eprintln!("engine {} has no structured replay", name);
                std::process::exit(2)
            };
            let v: serde_json::Value = serde_json::from_str(args.get(3).expect("json")).expect("valid json");
            let fails = f(&v);
            let out: Vec<_> = fails.iter().map(|f| json!({"clause": f.clause, "detail": f.detail})).collect();
            println!("{}", json!({"engine": name, "witness": v, "fails": out}));
            std::process::exit(if fails.is_empty() { 0 } else { 1 });
        }
        _ => {
            eprintln!("usage: vmon run|replay|replay-json|list ...");
            std::process::exit(2);
        }
    }
}
