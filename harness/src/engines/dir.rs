//! C14: character_direction vs the CLDR layout data. The same engine is built twice, with and
//! without the library's `likelysubtags` feature (harness feature `likely`).

use crate::likely::{Dir, DirData, Likely};
use crate::mon::{self, fail, guard, Ctx, Fail, SigH};
use crate::refspec;
use serde_json::{json, Value};
use unic_langid_impl::subtags::{Language, Region, Script, Variant};
use unic_langid_impl::{CharacterDirection, LanguageIdentifier};

pub const FEATURE_ON: bool = cfg!(feature = "likely");

fn lib_dir(d: CharacterDirection) -> Dir {
    match d {
        CharacterDirection::LTR => Dir::Ltr,
        CharacterDirection::RTL => Dir::Rtl,
        CharacterDirection::TTB => Dir::Ttb,
    }
}

const VARIANT_LISTS: &[&[&str]] = &[&["macos"], &["1996", "valencia"]];

pub fn c14_check_id(dd: &DirData, lk: Option<&Likely>, l: &str, s: Option<&str>, r: Option<&str>, cldr_locale: Option<Dir>) -> (Vec<Fail>, &'static str) {
    let mut out = vec![];
    let lang: Language = match l.parse() {
        Ok(x) => x,
        Err(_) => return (out, "harness"),
    };
    let script: Option<Script> = s.and_then(|x| x.parse().ok());
    let region: Option<Region> = r.and_then(|x| x.parse().ok());
    let li = LanguageIdentifier::from_parts(lang, script, region, &[]);
    let got = match guard(|| li.character_direction()) {
        Ok(d) => lib_dir(d),
        Err(p) => return (vec![fail("panic", p)], "panic"),
    };
    let cfgname = if FEATURE_ON { "likelysubtags on" } else { "likelysubtags off" };
    let mut class = "unconstrained";
    // (2) a script CLDR lists decides on its own
    let listed = s.and_then(|x| dd.script(x));
    if let Some(d) = listed {
        class = "script-decides";
        if got != d {
            out.push(fail("script-decides", format!("[{}] {}: CLDR lists script {} as {:?}, library says {:?}", cfgname, li, s.unwrap(), d, got)));
        }
    } else if !dd.rtl_langs.contains(l) {
        // (3) script absent/unlisted and language never RTL => LTR
        class = "default-ltr";
        if got != Dir::Ltr {
            out.push(fail("default-ltr", format!("[{}] {}: script not listed by CLDR and language never listed right-to-left, library says {:?}", cfgname, li, got)));
        }
    }
    // (6) the documented refinement (quantifier: "compared with an independent model derived from the
    // layout and likelySubtags JSON files"): with likely-subtags support, a script-less identifier of a
    // language CLDR lists right-to-left takes the direction of its CLDR likely script for
    // (language, region), when the likelySubtags data determine one (entry-based answer, not the
    // C06 fallback latitude) and CLDR lists that script. Everything else stays unconstrained.
    if FEATURE_ON && s.is_none() && listed.is_none() && dd.rtl_langs.contains(l) {
        if let Some(lk) = lk {
            if let Some((_, Some(ls), _)) = lk.primary(l, None, r) {
                if let Some(d) = dd.script(&ls) {
                    class = "likely-script-decides";
                    if got != d {
                        out.push(fail("likely-script-decides", format!("[{}] {}: CLDR likely script for this language/region is {} ({:?}), library says {:?}", cfgname, li, ls, d, got)));
                    }
                }
            }
        }
    }
    // (4) variants never matter
    for vl in VARIANT_LISTS {
        let vars: Vec<Variant> = vl.iter().filter_map(|v| v.parse().ok()).collect();
        let li2 = LanguageIdentifier::from_parts(lang, script, region, &vars);
        match guard(|| li2.character_direction()) {
            Ok(d) if lib_dir(d) == got => {}
            Ok(d) => out.push(fail("variants-matter", format!("[{}] {} is {:?} but {} is {:?}", cfgname, li, got, li2, lib_dir(d)))),
            Err(p) => out.push(fail("panic", p)),
        }
    }
    // ... also not the registered real-world variants (a rotating one for every identifier; all of them for
    // the CLDR locales and for script-less identifiers of right-to-left-listed languages)
    {
        use std::cell::Cell;
        thread_local! { static ROT: Cell<usize> = Cell::new(0); }
        let lexv = crate::lexicon::VARIANTS;
        let all = cldr_locale.is_some() || (s.is_none() && dd.rtl_langs.contains(l)) || ALL_LEXICON_VARIANTS.with(|c| c.get());
        let start = ROT.with(|c| {
            let v = c.get();
            c.set(v.wrapping_add(1));
            v
        });
        let n = if all { lexv.len() } else { 1 };
        for k in 0..n {
            let Ok(v) = lexv[(start + k) % lexv.len()].parse::<Variant>() else { continue };
            let li2 = LanguageIdentifier::from_parts(lang, script, region, &[v]);
            match guard(|| li2.character_direction()) {
                Ok(d) if lib_dir(d) == got => {}
                Ok(d) => out.push(fail("variants-matter", format!("[{}] {} is {:?} but {} is {:?}", cfgname, li, got, li2, lib_dir(d)))),
                Err(p) => out.push(fail("panic", p)),
            }
        }
    }
    // (1)/(5) the CLDR locale list
    if let Some(cl) = cldr_locale {
        if FEATURE_ON {
            class = "cldr-locale";
            if got != cl {
                out.push(fail("cldr-locale", format!("[{}] CLDR characterOrder of {} is {:?}, library says {:?}", cfgname, li, cl, got)));
            }
        } else if got != cl {
            let allowed = s.is_none() && dd.multi_direction_langs().contains(l);
            class = "cldr-locale";
            if !allowed {
                out.push(fail("cldr-locale-without-likelysubtags", format!("[{}] CLDR characterOrder of {} is {:?}, library says {:?}; a difference is allowed only for script-less identifiers of languages CLDR lists with more than one direction", cfgname, li, cl, got)));
            }
        } else {
            class = "cldr-locale";
        }
    }
    (out, class)
}

thread_local! {
    /// replay / minimisation: try every lexicon variant on every identifier (the workload rotates through them)
    pub static ALL_LEXICON_VARIANTS: std::cell::Cell<bool> = std::cell::Cell::new(false);
}

pub fn c14_replay(v: &Value) -> Vec<Fail> {
    ALL_LEXICON_VARIANTS.with(|c| c.set(true));
    let dd = match DirData::load() {
        Ok(d) => d,
        Err(e) => return vec![fail("harness", e)],
    };
    let l = v["language"].as_str().unwrap_or("und").to_string();
    let s = v["script"].as_str().map(String::from);
    let r = v["region"].as_str().map(String::from);
    let name = {
        let mut n = l.clone();
        if let Some(x) = &s {
            n.push('-');
            n.push_str(x);
        }
        if let Some(x) = &r {
            n.push('-');
            n.push_str(x);
        }
        n
    };
    let cl = dd.locales.iter().find(|(k, _)| k.eq_ignore_ascii_case(&name)).map(|(_, d)| *d);
    let lk = Likely::load().ok();
    c14_check_id(&dd, lk.as_ref(), &l, s.as_deref(), r.as_deref(), cl).0
}

fn split_name(name: &str) -> Option<(String, Option<String>, Option<String>, Vec<String>)> {
    let p: Vec<&str> = name.split('-').collect();
    let toks: Vec<&[u8]> = p.iter().map(|x| x.as_bytes()).collect();
    let (id, n) = refspec::langid_prefix(&toks)?;
    if n != toks.len() {
        return None;
    }
    Some((id.lang, id.script, id.region, id.variants))
}

pub fn run_c14(ctx: &mut Ctx) {
    let (dd, lk) = match (DirData::load(), Likely::load()) {
        (Ok(d), Ok(l)) => (d, l),
        (a, b) => {
            ctx.notes.push(format!("HARNESS-ERROR {:?} {:?}", a.err(), b.err()));
            return;
        }
    };
    let key_on: &'static str = if FEATURE_ON { "config:likelysubtags-on" } else { "config:likelysubtags-off" };
    // the CLDR locales (exhaustive)
    for (i, (name, d)) in dd.locales.iter().enumerate() {
        if i % ctx.nshards != ctx.shard {
            continue;
        }
        let Some((l, s, r, vars)) = split_name(name) else {
            ctx.notes.push(format!("HARNESS-ERROR CLDR locale name {:?} not understood", name));
            continue;
        };
        mon::begin_case(name.as_bytes());
        ctx.evals += 1;
        ctx.count(key_on);
        ctx.count("cldr-locale");
        ctx.sig(SigH::new(14).b(name.as_bytes()).u(FEATURE_ON as u64).fin());
        if ctx.wants_sample("cldr-locale") {
            ctx.sample("cldr-locale", || json!({"locale": name, "characterOrder": format!("{:?}", d), "config": key_on}));
        }
        let (mut fails, _) = c14_check_id(&dd, Some(&lk), &l, s.as_deref(), r.as_deref(), Some(*d));
        if !vars.is_empty() {
            // the CLDR name itself carries variants: parse it as written as well
            if let Ok(li) = name.parse::<LanguageIdentifier>() {
                let got = lib_dir(li.character_direction());
                if FEATURE_ON && got != *d {
                    fails.push(fail("cldr-locale", format!("CLDR characterOrder of {} is {:?}, library says {:?}", name, d, got)));
                }
            }
        }
        for f in fails {
            ctx.viol_total += 1;
            ctx.count_dyn(&format!("violation:{}", f.clause));
            if ctx.may_minimise(&f.clause) {
                ctx.add_violation(&f.clause, json!({"language": l, "script": s, "region": r, "config": key_on}), json!(null), f.detail);
            }
        }
    }
    // the universe
    let u = crate::engines::universe::Universe::new(&lk, Some(&dd));
    ctx.extra.insert("universe".into(), json!({"languages": u.langs.len(), "scripts_incl_absent": u.scripts.len(), "regions_incl_absent": u.regions.len(), "triples": u.size()}));
    crate::engines::universe::for_triples(ctx, &u, &lk, &mut |ctx, l, s, r| {
        ctx.evals += 1;
        ctx.count(key_on);
        let (fails, class) = c14_check_id(&dd, Some(&lk), l, s, r, None);
        ctx.count(match class {
            "script-decides" => "clause:script-decides",
            "default-ltr" => "clause:default-ltr",
            "likely-script-decides" => "clause:likely-script-decides(feature on, script-less, rtl-listed language)",
            "unconstrained" => "clause:unconstrained(rtl-language,script absent/unlisted)",
            _ => "clause:other",
        });
        // distinct = (language class, script class, build, direction)
        let lclass = if dd.rtl_langs.contains(l) { 1 + dd.multi_direction_langs().contains(l) as u64 } else { 0 };
        let mut h = SigH::new(14);
        h.u(lclass).b(s.unwrap_or("").as_bytes()).u(FEATURE_ON as u64).u(r.is_some() as u64);
        if lclass > 0 {
            h.b(l.as_bytes());
        }
        ctx.sig(h.fin());
        if class != "default-ltr" && ctx.wants_sample(class) {
            ctx.sample(class, || json!({"language": l, "script": s, "region": r, "config": key_on, "clause": class}));
        }
        for f in fails {
            ctx.viol_total += 1;
            ctx.count_dyn(&format!("violation:{}", f.clause));
            if ctx.may_minimise(&f.clause) {
                ctx.add_violation(&f.clause, json!({"language": l, "script": s, "region": r, "config": key_on}), json!(null), f.detail);
            }
        }
    });
    mon::idle();
    ctx.extra.insert("set_configs".into(), json!([key_on]));
    ctx.extra.insert("r_dir".into(), json!({"cldr_locales": dd.locales.len(), "scripts_listed": dd.script_dir.len(), "rtl_languages": dd.rtl_langs.len(), "multi_direction_languages": dd.multi_direction_langs()}));
    ctx.extra.insert("floors".into(), json!({"cldr-locale": 700, "clause:script-decides": 1000, "clause:default-ltr": 1000}));
}
