//! Observation of library values through the public getters only.

use crate::refspec::{LangId, Loc};
use unic_langid_impl::LanguageIdentifier;
use unic_locale_impl::{ExtensionsMap, Locale};

pub fn obs_li(li: &LanguageIdentifier) -> LangId {
    LangId {
        lang: li.language.as_str().to_string(),
        script: li.script.map(|s| s.as_str().to_string()),
        region: li.region.map(|s| s.as_str().to_string()),
        variants: li.variants().map(|v| v.as_str().to_string()).collect(),
    }
}

pub fn obs_ext(e: &ExtensionsMap, id: LangId) -> Loc {
    let u = &e.unicode;
    let t = &e.transform;
    let p = &e.private;
    Loc {
        id,
        attrs: u.attributes().map(String::from).collect(),
        keywords: u
            .keyword_keys()
            .map(|k| {
                (
                    k.to_string(),
                    u.keyword(k).map(|it| it.map(String::from).collect()).unwrap_or_else(|_| vec!["<keyword() Err>".into()]),
                )
            })
            .collect(),
        tlang: t.tlang().map(obs_li),
        tfields: t
            .tfield_keys()
            .map(|k| {
                (
                    k.to_string(),
                    t.tfield(k).map(|it| it.map(String::from).collect()).unwrap_or_else(|_| vec!["<tfield() Err>".into()]),
                )
            })
            .collect(),
        private: p.tags().map(String::from).collect(),
    }
}

pub fn obs_loc(l: &Locale) -> Loc {
    obs_ext(&l.extensions, obs_li(&l.id))
}

/// Order / uniqueness facts about the raw getter sequences (before any normalisation by the
/// observer): (variants strictly ascending, attributes strictly ascending, keyword keys strictly
/// ascending, tfield keys strictly ascending, private tags non-decreasing).
pub fn order_facts(l: &Locale) -> Vec<&'static str> {
    let mut bad = vec![];
    if !strictly_ascending(l.id.variants().map(|v| v.as_str())) {
        bad.push("variants not strictly ascending");
    }
    if let Some(t) = l.extensions.transform.tlang() {
        if !strictly_ascending(t.variants().map(|v| v.as_str())) {
            bad.push("tlang variants not strictly ascending");
        }
    }
    if !strictly_ascending(l.extensions.unicode.attributes()) {
        bad.push("attributes not strictly ascending");
    }
    if !strictly_ascending(l.extensions.unicode.keyword_keys()) {
        bad.push("keyword keys not strictly ascending");
    }
    if !strictly_ascending(l.extensions.transform.tfield_keys()) {
        bad.push("tfield keys not strictly ascending");
    }
    let tags: Vec<&str> = l.extensions.private.tags().collect();
    if tags.windows(2).any(|w| w[0] > w[1]) {
        bad.push("private tags not sorted");
    }
    bad
}

pub fn strictly_ascending<'a>(it: impl Iterator<Item = &'a str>) -> bool {
    let v: Vec<&str> = it.collect();
    v.windows(2).all(|w| w[0] < w[1])
}

/// Casing facts of a serialised identifier checked on the observed fields.
pub fn casing_ok(id: &LangId) -> bool {
    id.lang.bytes().all(|b| b.is_ascii_lowercase())
        && id.script.as_ref().map_or(true, |s| {
            let b = s.as_bytes();
            b.len() == 4 && b[0].is_ascii_uppercase() && b[1..].iter().all(|c| c.is_ascii_lowercase())
        })
        && id
            .region
            .as_ref()
            .map_or(true, |s| s.bytes().all(|b| b.is_ascii_uppercase() || b.is_ascii_digit()))
        && id
            .variants
            .iter()
            .all(|v| v.bytes().all(|b| b.is_ascii_lowercase() || b.is_ascii_digit()))
}

/// Single-representation facts of a LanguageIdentifier that the getters alone do not show:
/// the undetermined language must be the *empty* language (not a language named "und"), and
/// "no variants" must be the same value as a never-touched variants field.
pub fn repr_facts_li(li: &LanguageIdentifier) -> Vec<&'static str> {
    let mut bad = vec![];
    let is_und = li.language.as_str() == "und";
    if is_und != li.language.is_empty() {
        bad.push("language prints as und but is not the empty language (or vice versa)");
    }
    if is_und && li.language != unic_langid_impl::subtags::Language::default() {
        bad.push("und language != Language::default()");
    }
    let none_built = LanguageIdentifier::from_parts(li.language, li.script, li.region, &li.variants().cloned().collect::<Vec<_>>());
    if none_built != *li {
        bad.push("value != from_parts(its own fields) (second representation of the same logical value)");
    }
    bad
}

pub fn repr_facts(l: &Locale) -> Vec<&'static str> {
    let mut bad = repr_facts_li(&l.id);
    if let Some(t) = l.extensions.transform.tlang() {
        for f in repr_facts_li(t) {
            bad.push(match f {
                x if x.starts_with("language prints") => "tlang: language prints as und but is not the empty language",
                x if x.starts_with("und language") => "tlang: und language != Language::default()",
                _ => "tlang: value != from_parts(its own fields)",
            });
        }
    }
    bad
}
