//! C17 (decomposition and raw-representation round trips) and C19 (serde).

use crate::engines::hist::gen_value;
use crate::gen;
use crate::mon::{self, fail, guard, Ctx, Fail, SigH};
use crate::rng::{mix, Rng};
use crate::stream::{byte_stream, StreamCfg};
use serde_json::{json, Value};
use std::collections::HashSet;
use unic_langid_impl::subtags::{Language, Region, Script, Variant};
use unic_langid_impl::LanguageIdentifier;
use unic_locale_impl::{ExtensionsMap, Locale};

// ------------------------------------------------------------------ C17

pub fn c17_check_value(l: &Locale) -> Vec<Fail> {
    let mut out = vec![];
    // LanguageIdentifier: from_parts(into_parts(x)) == x
    let (lang, s, r, v) = l.id.clone().into_parts();
    if lang != l.id.language || s != l.id.script || r != l.id.region || v.iter().collect::<Vec<_>>() != l.id.variants().collect::<Vec<_>>() {
        out.push(fail("into_parts", format!("into_parts of {} returns ({:?}, {:?}, {:?}, {:?})", l.id, lang, s, r, v)));
    }
    let back = LanguageIdentifier::from_parts(lang, s, r, &v);
    if back != l.id || back.to_string() != l.id.to_string() {
        out.push(fail("langid-parts-roundtrip", format!("from_parts(into_parts({})) = {}", l.id, back)));
    }
    let raw = LanguageIdentifier::from_raw_parts_unchecked(lang, s, r, if v.is_empty() { None } else { Some(v.clone().into_boxed_slice()) });
    if raw != l.id {
        out.push(fail("langid-raw-parts-roundtrip", format!("from_raw_parts_unchecked(into_parts({})) = {}", l.id, raw)));
    }
    // the pattern of the repository's own test (test_from_parts_unchecked): the variant Vec handed back as
    // Some(boxed slice) whatever its length - sorted and duplicate-free, which is all the constructor asks for
    let raw2 = LanguageIdentifier::from_raw_parts_unchecked(lang, s, r, Some(v.clone().into_boxed_slice()));
    if raw2 != l.id || raw2.to_string() != l.id.to_string() {
        out.push(fail("langid-raw-parts-roundtrip", format!("from_raw_parts_unchecked({:?}, {:?}, {:?}, Some(boxed {:?})) prints {} but is not equal to {} whose parts these are", lang, s, r, v, raw2, l.id)));
    }
    // Locale: extension string re-parsed
    let (lang, s, r, v, e) = l.clone().into_parts();
    // (the statement only requires that the extension string re-parses to the same ExtensionsMap; its
    // exact text is not constrained here - an earlier clause demanding e == extensions.to_string() was
    // stricter than the property and has been removed, see DESIGN.md section 7)
    match guard(|| e.parse::<ExtensionsMap>()) {
        Err(p) => out.push(fail("panic", p)),
        Ok(Err(err)) => out.push(fail("locale-parts-roundtrip", format!("extension string {:?} from into_parts does not parse: {:?}", e, err))),
        Ok(Ok(em)) => {
            let back = Locale::from_parts(lang, s, r, &v, Some(em));
            if back != *l || back.to_string() != l.to_string() {
                out.push(fail("locale-parts-roundtrip", format!("from_parts(into_parts({})) = {}", l, back)));
            }
            // the unchecked constructor must agree with the checked one on already-canonical parts
            match guard(|| e.parse::<ExtensionsMap>()) {
                Ok(Ok(em2)) => {
                    let mut sorted = v.clone();
                    sorted.sort_unstable();
                    sorted.dedup();
                    let boxed = if sorted.is_empty() { None } else { Some(sorted.into_boxed_slice()) };
                    let rawl = unsafe { Locale::from_raw_parts_unchecked(lang, s, r, boxed, em2) };
                    if rawl != *l || rawl.to_string() != l.to_string() {
                        out.push(fail("locale-raw-parts-roundtrip", format!("Locale::from_raw_parts_unchecked(into_parts({})) = {}", l, rawl)));
                    }
                }
                _ => {}
            }
            if l.extensions.is_empty() {
                let b2 = Locale::from_parts(lang, s, r, &v, None);
                if b2 != *l {
                    out.push(fail("locale-parts-roundtrip", format!("from_parts(.., None) = {} for {}", b2, l)));
                }
            }
        }
    }
    // raw integers of every subtag of the value
    out.extend(raw_roundtrip_id(&l.id));
    if let Some(t) = l.extensions.transform.tlang() {
        out.extend(raw_roundtrip_id(t));
    }
    out
}

fn raw_roundtrip_id(li: &LanguageIdentifier) -> Vec<Fail> {
    let mut out = vec![];
    out.extend(raw_lang(li.language));
    if let Some(s) = li.script {
        out.extend(raw_script(s));
    }
    if let Some(r) = li.region {
        out.extend(raw_region(r));
    }
    for v in li.variants() {
        out.extend(raw_variant(*v));
    }
    out
}

fn le_text(bytes: &[u8]) -> String {
    let n = bytes.iter().position(|c| *c == 0).unwrap_or(bytes.len());
    String::from_utf8_lossy(&bytes[..n]).into_owned()
}

pub fn raw_lang(t: Language) -> Vec<Fail> {
    let mut out = vec![];
    let i: Option<u64> = t.into();
    let i2: Option<u64> = (&t).into();
    if i != i2 {
        out.push(fail("raw-language", format!("From<Language> and From<&Language> differ for {}", t)));
    }
    match i {
        None => {
            if !t.is_empty() {
                out.push(fail("raw-language", format!("{} converts to None", t)));
            }
        }
        Some(x) => {
            if le_text(&x.to_le_bytes()) != t.as_str() {
                out.push(fail("raw-language", format!("integer form of {} spells {:?} (little-endian)", t, le_text(&x.to_le_bytes()))));
            }
            let b = match guard(|| unsafe { Language::from_raw_unchecked(x) }) {
                Ok(b) => b,
                Err(p) => {
                    out.push(fail("raw-language", format!("from_raw_unchecked({}) of the valid subtag {} panicked: {}", x, t, p)));
                    return out;
                }
            };
            if b != t || b.as_str() != t.as_str() {
                out.push(fail("raw-language", format!("{} -> {} -> {}", t, x, b)));
            }
        }
    }
    out
}
pub fn raw_script(t: Script) -> Vec<Fail> {
    let mut out = vec![];
    let x: u32 = t.into();
    if le_text(&x.to_le_bytes()) != t.as_str() {
        out.push(fail("raw-script", format!("integer form of {} spells {:?}", t, le_text(&x.to_le_bytes()))));
    }
    let b = match guard(|| unsafe { Script::from_raw_unchecked(x) }) {
        Ok(b) => b,
        Err(p) => {
            out.push(fail("raw-script", format!("from_raw_unchecked({}) of the valid subtag {} panicked: {}", x, t, p)));
            return out;
        }
    };
    if b != t || b.as_str() != t.as_str() {
        out.push(fail("raw-script", format!("{} -> {} -> {}", t, x, b)));
    }
    out
}
pub fn raw_region(t: Region) -> Vec<Fail> {
    let mut out = vec![];
    let x: u32 = t.into();
    if le_text(&x.to_le_bytes()) != t.as_str() {
        out.push(fail("raw-region", format!("integer form of {} spells {:?}", t, le_text(&x.to_le_bytes()))));
    }
    let b = match guard(|| unsafe { Region::from_raw_unchecked(x) }) {
        Ok(b) => b,
        Err(p) => {
            out.push(fail("raw-region", format!("from_raw_unchecked({}) of the valid subtag {} panicked: {}", x, t, p)));
            return out;
        }
    };
    if b != t || b.as_str() != t.as_str() {
        out.push(fail("raw-region", format!("{} -> {} -> {}", t, x, b)));
    }
    out
}
pub fn raw_variant(t: Variant) -> Vec<Fail> {
    let mut out = vec![];
    let x: u64 = t.into();
    let x2: u64 = (&t).into();
    if x != x2 {
        out.push(fail("raw-variant", format!("From<Variant> and From<&Variant> differ for {}", t)));
    }
    if le_text(&x.to_le_bytes()) != t.as_str() {
        out.push(fail("raw-variant", format!("integer form of {} spells {:?}", t, le_text(&x.to_le_bytes()))));
    }
    let b = match guard(|| unsafe { Variant::from_raw_unchecked(x) }) {
        Ok(b) => b,
        Err(p) => {
            out.push(fail("raw-variant", format!("from_raw_unchecked({}) of the valid subtag {} panicked: {}", x, t, p)));
            return out;
        }
    };
    if b != t || b.as_str() != t.as_str() {
        out.push(fail("raw-variant", format!("{} -> {} -> {}", t, x, b)));
    }
    out
}

/// from_parts with a permuted/duplicated variant list == parsing the joined string
pub fn c17_check_variants(base: &str, vars: &[String]) -> Vec<Fail> {
    let mut out = vec![];
    let Ok(id) = base.parse::<LanguageIdentifier>() else { return out };
    let parsed: Vec<Variant> = vars.iter().filter_map(|v| v.parse().ok()).collect();
    if parsed.len() != vars.len() {
        return out;
    }
    let built = LanguageIdentifier::from_parts(id.language, id.script, id.region, &parsed);
    let mut joined = base.to_string();
    for v in vars {
        joined.push('-');
        joined.push_str(v);
    }
    crate::stream::hostile_neighbour(joined.as_bytes());
    match joined.parse::<LanguageIdentifier>() {
        Ok(p) => {
            if p != built || p.to_string() != built.to_string() {
                out.push(fail("from_parts-vs-parse", format!("from_parts({}, {:?}) = {} but parsing {:?} gives {}", base, vars, built, joined, p)));
            }
        }
        Err(e) => out.push(fail("from_parts-vs-parse", format!("{:?} does not parse: {:?}", joined, e))),
    }
    let lb = Locale::from_parts(id.language, id.script, id.region, &parsed, None);
    if lb.id != built {
        out.push(fail("from_parts-vs-parse", format!("Locale::from_parts id {} != LanguageIdentifier::from_parts {}", lb.id, built)));
    }
    out
}

pub fn c17_replay(v: &Value) -> Vec<Fail> {
    if let Some(s) = v["value"].as_str() {
        return match s.parse::<Locale>() {
            Ok(l) => c17_check_value(&l),
            Err(_) => vec![fail("bad-replay", "value does not parse")],
        };
    }
    if let (Some(b), Some(vs)) = (v["base"].as_str(), v["variants"].as_array()) {
        let vars: Vec<String> = vs.iter().filter_map(|x| x.as_str().map(String::from)).collect();
        return c17_check_variants(b, &vars);
    }
    if let (Some(t), Some(s)) = (v["type"].as_str(), v["subtag"].as_str()) {
        return match t {
            "language" => s.parse().map(raw_lang).unwrap_or_default(),
            "script" => s.parse().map(raw_script).unwrap_or_default(),
            "region" => s.parse().map(raw_region).unwrap_or_default(),
            _ => s.parse().map(raw_variant).unwrap_or_default(),
        };
    }
    vec![fail("bad-replay", "unknown witness shape")]
}

fn push(ctx: &mut Ctx, fails: Vec<Fail>, w: impl Fn() -> Value) {
    for f in fails {
        ctx.viol_total += 1;
        ctx.count_dyn(&format!("violation:{}", f.clause));
        if ctx.may_minimise(&f.clause) {
            ctx.add_violation(&f.clause, w(), json!(null), f.detail);
        }
    }
}

fn permutations(items: &[String], out: &mut Vec<Vec<String>>, cur: &mut Vec<String>, used: &mut Vec<bool>) {
    if cur.len() == items.len() {
        out.push(cur.clone());
        return;
    }
    for i in 0..items.len() {
        if !used[i] {
            used[i] = true;
            cur.push(items[i].clone());
            permutations(items, out, cur, used);
            cur.pop();
            used[i] = false;
        }
    }
}

pub fn run_c17(ctx: &mut Ctx) {
    let quick = ctx.quick();
    let miri = cfg!(miri);
    let (sh, n) = (ctx.shard as u64, ctx.nshards as u64);
    // (1) raw round trips + injectivity over enumerated subtag sets
    let mut r = Rng::new(mix(&[ctx.seed, sh, 0xC17]));
    if !miri {
        // all 26^4 scripts
        let mut ints: HashSet<u32> = HashSet::new();
        let mut cnt = 0u64;
        let mut b = [0u8; 4];
        for i in (sh..26u64.pow(4)).step_by(n as usize) {
            let mut x = i;
            for j in 0..4 {
                b[j] = b'a' + (x % 26) as u8;
                x /= 26;
            }
            let Ok(t) = Script::from_bytes(&b) else {
                ctx.count("setup: valid subtag rejected by the library (skipped)");
                continue;
            };
            mon::begin_case(&b);
            ctx.evals += 1;
            cnt += 1;
            ints.insert(t.into());
            let f = raw_script(t);
            if !f.is_empty() {
                push(ctx, f, || json!({"type": "script", "subtag": t.as_str()}));
            }
        }
        ctx.count_n("raw:scripts(all 26^4)", cnt);
        if ints.len() as u64 != cnt {
            ctx.viol_total += 1;
            ctx.add_violation("not-injective", json!({"type": "script"}), json!(null), format!("{} distinct scripts map to {} distinct integers", cnt, ints.len()));
        }
        // all regions
        let mut ints: HashSet<u32> = HashSet::new();
        let mut cnt = 0u64;
        let mut regs: Vec<String> = vec![];
        for a in b'A'..=b'Z' {
            for c in b'A'..=b'Z' {
                regs.push(format!("{}{}", a as char, c as char));
            }
        }
        for i in 0..1000 {
            regs.push(format!("{:03}", i));
        }
        for (i, s) in regs.iter().enumerate() {
            if i as u64 % n != sh {
                continue;
            }
            let Ok(t) = s.parse::<Region>() else {
                ctx.count("setup: valid subtag rejected by the library (skipped)");
                continue;
            };
            ctx.evals += 1;
            cnt += 1;
            ints.insert(t.into());
            let f = raw_region(t);
            if !f.is_empty() {
                push(ctx, f, || json!({"type": "region", "subtag": s}));
            }
        }
        ctx.count_n("raw:regions(all 676+1000)", cnt);
        if ints.len() as u64 != cnt {
            ctx.viol_total += 1;
            ctx.add_violation("not-injective", json!({"type": "region"}), json!(null), format!("{} distinct regions map to {} distinct integers", cnt, ints.len()));
        }
        // all 2-3 letter languages
        let mut ints: HashSet<Option<u64>> = HashSet::new();
        let mut cnt = 0u64;
        let mut idx = 0u64;
        for len in 2..=3usize {
            for i in 0..26u64.pow(len as u32) {
                idx += 1;
                if idx % n != sh {
                    continue;
                }
                let mut x = i;
                let mut b = vec![0u8; len];
                for j in 0..len {
                    b[j] = b'a' + (x % 26) as u8;
                    x /= 26;
                }
                let Ok(t) = Language::from_bytes(&b) else {
                    ctx.count("setup: valid subtag rejected by the library (skipped)");
                    continue;
                };
                ctx.evals += 1;
                cnt += 1;
                ints.insert(t.into());
                let f = raw_lang(t);
                if !f.is_empty() {
                    push(ctx, f, || json!({"type": "language", "subtag": t.as_str()}));
                }
            }
        }
        ctx.count_n("raw:languages(all 2-3 letter)", cnt);
        if ints.len() as u64 != cnt {
            ctx.viol_total += 1;
            ctx.add_violation("not-injective", json!({"type": "language"}), json!(null), format!("{} distinct languages map to {} distinct integers", cnt, ints.len()));
        }
    }
    // random long languages and variants
    let nr = if miri { if quick { 12 } else { 150 } } else if quick { 100_000 / n } else { 10_000_000 / n };
    let mut texts: HashSet<String> = HashSet::new();
    let mut ints: HashSet<u64> = HashSet::new();
    for _ in 0..nr {
        let Ok(v) = gen::gen_variant(&mut r).parse::<Variant>() else {
            ctx.count("setup: valid subtag rejected by the library (skipped)");
            continue;
        };
        ctx.evals += 1;
        ctx.count("raw:variants(random)");
        texts.insert(v.as_str().to_string());
        ints.insert(v.into());
        let f = raw_variant(v);
        if !f.is_empty() {
            push(ctx, f, || json!({"type": "variant", "subtag": v.as_str()}));
        }
        let Ok(l) = gen::gen_lang(&mut r).parse::<Language>() else {
            ctx.count("setup: valid subtag rejected by the library (skipped)");
            continue;
        };
        ctx.evals += 1;
        ctx.count("raw:languages(random)");
        let f = raw_lang(l);
        if !f.is_empty() {
            push(ctx, f, || json!({"type": "language", "subtag": l.as_str()}));
        }
        if miri {
            let (Ok(s), Ok(rg)) = (gen::gen_script(&mut r).parse::<Script>(), gen::gen_region(&mut r).parse::<Region>()) else {
                ctx.count("setup: valid subtag rejected by the library (skipped)");
                continue;
            };
            ctx.evals += 2;
            ctx.count_n("raw:scripts+regions(random)", 2);
            let mut f = raw_script(s);
            f.extend(raw_region(rg));
            if !f.is_empty() {
                push(ctx, f, || json!({"type": "script", "subtag": s.as_str()}));
            }
        }
    }
    if texts.len() != ints.len() {
        ctx.viol_total += 1;
        ctx.add_violation("not-injective", json!({"type": "variant"}), json!(null), format!("{} distinct variants map to {} distinct integers", texts.len(), ints.len()));
    }
    mon::idle();
    // (2) decomposition round trips on reachable values
    let nv = if miri { if quick { 6 } else { 60 } } else if quick { 300_000 / n } else { 10_000_000 / n };
    for _ in 0..nv {
        ctx.rng_state = Some(r.state());
        let (l, route, desc) = gen_value(&mut r);
        mon::begin_case(route.as_bytes());
        ctx.evals += 1;
        ctx.count("decompose:values");
        let s = l.to_string();
        if crate::refspec::n_subtags(s.as_bytes()) >= 2 {
            ctx.sig(SigH::new(17).b(s.as_bytes()).fin());
        }
        if ctx.wants_sample("decompose") && s.len() > 14 {
            ctx.sample("decompose", || json!({"value": s, "route": route, "into_parts_extensions": l.clone().into_parts().4}));
        }
        let f = c17_check_value(&l);
        if !f.is_empty() {
            push(ctx, f, || json!({"value": s, "route": route, "built_from": desc}));
        }
    }
    ctx.rng_state = None;
    // (3) every permutation / duplication of <= 4 variants
    let bases = ["en", "und", "sr-Cyrl", "de-AT", "zh-Hant-TW"];
    let nsets = if miri { 1 } else if quick { 40 } else { 2000 };
    let mut unit = 0u64;
    for k in 0..nsets {
        let mut rr = Rng::new(mix(&[ctx.seed, k, 0xC17B]));
        let cnt = 1 + rr.below(4);
        let mut vs: Vec<String> = vec![];
        while vs.len() < cnt {
            let v = gen::gen_variant(&mut rr);
            if !vs.contains(&v) {
                vs.push(v);
            }
        }
        let mut perms = vec![];
        permutations(&vs, &mut perms, &mut vec![], &mut vec![false; vs.len()]);
        for p in perms {
            // plain, with one duplicate, upper-cased
            let mut forms = vec![p.clone()];
            let mut d = p.clone();
            d.push(p[0].clone());
            forms.push(d);
            for f in forms {
                unit += 1;
                if unit % n != sh {
                    continue;
                }
                let base = bases[(unit % bases.len() as u64) as usize];
                ctx.evals += 1;
                ctx.count("variants:permutations+duplications");
                ctx.sig(SigH::new(0x171).b(base.as_bytes()).b(f.join("-").as_bytes()).fin());
                let fl = c17_check_variants(base, &f);
                if !fl.is_empty() {
                    push(ctx, fl, || json!({"base": base, "variants": f}));
                }
            }
        }
    }
    mon::idle();
    if !miri {
        ctx.extra.insert("floors".into(), json!({"decompose:values": 10000, "variants:permutations+duplications": 500, "raw:scripts(all 26^4)": 400000}));
    }
}

// ------------------------------------------------------------------ C19

fn json_quote(s: &str) -> String {
    serde_json::to_string(&Value::String(s.to_string())).unwrap()
}
fn json_escape_all(s: &str) -> String {
    let mut o = String::from("\"");
    for u in s.encode_utf16() {
        o.push_str(&format!("\\u{:04x}", u));
    }
    o.push('"');
    o
}
fn json_escape_mixed(s: &str) -> String {
    let mut o = String::from("\"");
    for (i, c) in s.chars().enumerate() {
        if i % 2 == 0 || c == '"' || c == '\\' || (c as u32) < 0x20 {
            let mut buf = [0u16; 2];
            for u in c.encode_utf16(&mut buf) {
                o.push_str(&format!("\\u{:04X}", u));
            }
        } else {
            o.push(c);
        }
    }
    o.push('"');
    o
}

pub fn c19_check_str(input: &[u8]) -> Vec<Fail> {
    let mut out = vec![];
    let Ok(s) = std::str::from_utf8(input) else { return out };
    let direct = match guard(|| s.parse::<LanguageIdentifier>()) {
        Ok(d) => d,
        Err(p) => return vec![fail("panic", p)],
    };
    mon::note_outcome(if direct.is_ok() { 1 } else { 2 });
    let renderings = [("plain", json_quote(s)), ("all-escaped", json_escape_all(s)), ("mixed-escapes", json_escape_mixed(s))];
    for (name, js) in &renderings {
        match guard(|| serde_json::from_str::<LanguageIdentifier>(js)) {
            Err(p) => out.push(fail("panic", format!("from_str({}) panicked: {}", js, p))),
            Ok(de) => match (&direct, &de) {
                (Ok(a), Ok(b)) if a == b => {}
                (Err(_), Err(_)) => {}
                _ => out.push(fail("deserialize-vs-parse", format!("[{}] {:?}: parse = {:?}, deserialize = {:?}", name, s, direct.as_ref().map(|x| x.to_string()), de.as_ref().map(|x| x.to_string()).map_err(|e| e.to_string())))),
            },
        }
    }
    match guard(|| serde_json::from_value::<LanguageIdentifier>(Value::String(s.to_string()))) {
        Err(p) => out.push(fail("panic", p)),
        Ok(de) => match (&direct, &de) {
            (Ok(a), Ok(b)) if a == b => {}
            (Err(_), Err(_)) => {}
            _ => out.push(fail("deserialize-vs-parse", format!("[from_value] {:?}: parse ok = {}, deserialize ok = {}", s, direct.is_ok(), de.is_ok()))),
        },
    }
    // further routes to the same Deserialize impl: serde's own value deserializers (which call visit_str,
    // visit_string and visit_borrowed_str respectively), serde_json from bytes / from a reader, and the
    // identifier as an element, an optional and a *map key* (serde_json hands keys to a separate deserializer)
    use serde::de::value::{BorrowedStrDeserializer, CowStrDeserializer, Error as VErr, StrDeserializer, StringDeserializer};
    use serde::Deserialize;
    let quoted = &renderings[0].1;
    let routes: Vec<(&str, Result<Result<LanguageIdentifier, String>, String>)> = vec![
        ("value::StrDeserializer", guard(|| LanguageIdentifier::deserialize(StrDeserializer::<VErr>::new(s)).map_err(|e| e.to_string()))),
        ("value::StringDeserializer", guard(|| LanguageIdentifier::deserialize(StringDeserializer::<VErr>::new(s.to_string())).map_err(|e| e.to_string()))),
        ("value::BorrowedStrDeserializer", guard(|| LanguageIdentifier::deserialize(BorrowedStrDeserializer::<VErr>::new(s)).map_err(|e| e.to_string()))),
        ("value::CowStrDeserializer(owned)", guard(|| LanguageIdentifier::deserialize(CowStrDeserializer::<VErr>::new(std::borrow::Cow::Owned(s.to_string()))).map_err(|e| e.to_string()))),
        ("serde_json::from_slice", guard(|| serde_json::from_slice::<LanguageIdentifier>(quoted.as_bytes()).map_err(|e| e.to_string()))),
        ("serde_json::from_reader", guard(|| serde_json::from_reader::<_, LanguageIdentifier>(std::io::Cursor::new(renderings[2].1.as_bytes())).map_err(|e| e.to_string()))),
        ("element of a JSON array", guard(|| serde_json::from_str::<Vec<LanguageIdentifier>>(&format!("[{}]", quoted)).map_err(|e| e.to_string()).map(|mut v| v.pop().unwrap()))),
        ("Option<LanguageIdentifier>", guard(|| serde_json::from_str::<Option<LanguageIdentifier>>(quoted).map_err(|e| e.to_string()).and_then(|v| v.ok_or_else(|| "None".to_string())))),
        ("JSON object key", guard(|| serde_json::from_str::<std::collections::BTreeMap<LanguageIdentifier, u8>>(&format!("{{{}:1}}", renderings[1].1)).map_err(|e| e.to_string()).and_then(|m| m.into_iter().next().map(|(k, _)| k).ok_or_else(|| "empty map".to_string())))),
    ];
    for (name, r) in routes {
        match r {
            Err(p) => out.push(fail("panic", format!("{} on {:?} panicked: {}", name, s, p))),
            Ok(de) => match (&direct, &de) {
                (Ok(a), Ok(b)) if a == b => {}
                (Err(_), Err(_)) => {}
                _ => out.push(fail("deserialize-vs-parse", format!("[{}] {:?}: parse = {:?}, deserialize = {:?}", name, s, direct.as_ref().map(|x| x.to_string()), de.as_ref().map(|x| x.to_string())))),
            },
        }
    }
    if let Ok(li) = &direct {
        out.extend(c19_check_value(li));
    }
    out
}

pub fn c19_check_value(li: &LanguageIdentifier) -> Vec<Fail> {
    let mut out = vec![];
    let canon = li.to_string();
    match guard(|| serde_json::to_string(li)) {
        Err(p) => out.push(fail("panic", p)),
        Ok(Err(e)) => out.push(fail("serialize-failed", e.to_string())),
        Ok(Ok(js)) => {
            if js != json_quote(&canon) {
                out.push(fail("serialized-form", format!("{} serialises to {} instead of {}", canon, js, json_quote(&canon))));
            }
            crate::stream::hostile_neighbour(js.as_bytes());
            match guard(|| serde_json::from_str::<LanguageIdentifier>(&js)) {
                Ok(Ok(b)) if b == *li => {}
                x => out.push(fail("serde-roundtrip", format!("{} -> {} -> {:?}", canon, js, x.map(|r| r.map(|v| v.to_string()).map_err(|e| e.to_string()))))),
            }
        }
    }
    match guard(|| serde_json::to_value(li)) {
        Ok(Ok(Value::String(s))) if s == canon => {}
        x => out.push(fail("serialized-form", format!("to_value({}) = {:?}", canon, x.map(|r| r.map_err(|e| e.to_string()))))),
    }
    // inside containers and as a map key (serde_json serialises keys through a separate serializer that only
    // accepts string-like values): the text must again be exactly the canonical string
    let mut m = std::collections::BTreeMap::new();
    m.insert(li.clone(), vec![li.clone()]);
    let want = format!("{{{}:[{}]}}", json_quote(&canon), json_quote(&canon));
    match guard(|| serde_json::to_string(&m)) {
        Ok(Ok(js)) if js == want => match guard(|| serde_json::from_str::<std::collections::BTreeMap<LanguageIdentifier, Vec<LanguageIdentifier>>>(&js)) {
            Ok(Ok(back)) if back == m => {}
            x => out.push(fail("serde-roundtrip", format!("map {} -> {:?}", js, x.map(|r| r.map(|_| "a different map").map_err(|e| e.to_string()))))),
        },
        x => out.push(fail("serialized-form", format!("as key and element: {:?} instead of {}", x.map(|r| r.map_err(|e| e.to_string())), want))),
    }
    match guard(|| serde_json::to_vec(li)) {
        Ok(Ok(v)) if v == json_quote(&canon).into_bytes() => {}
        x => out.push(fail("serialized-form", format!("to_vec({}) = {:?}", canon, x.map(|r| r.map(|v| String::from_utf8_lossy(&v).into_owned()).map_err(|e| e.to_string()))))),
    }
    out
}

/// Non-string JSON documents that *spell* a well-formed identifier some other way: its bytes as an array of
/// numbers, its characters as an array of one-character strings, wrapped in a one-element array / object.
pub fn spelled_non_strings(s: &str) -> Vec<String> {
    vec![
        format!("[{}]", s.bytes().map(|b| b.to_string()).collect::<Vec<_>>().join(",")),
        format!("[{}]", s.chars().map(|c| json_quote(&c.to_string())).collect::<Vec<_>>().join(",")),
        format!("[{}]", json_quote(s)),
        format!("{{{}:null}}", json_quote(s)),
        format!("{{\"id\":{}}}", json_quote(s)),
    ]
}

const NON_STRINGS: &[&str] = &[
    "null", "true", "false", "0", "1", "-1", "1.5", "1e300", "[]", "[\"en\"]", "{}", "{\"en\":\"US\"}", "[[\"en\"]]", "{\"a\":{\"b\":[1,2,{\"c\":null}]}}",
    "18446744073709551616", "[null]", "{\"language\":\"en\"}",
];

pub fn c19_check_nonstring(js: &str) -> Vec<Fail> {
    let mut out = vec![];
    match guard(|| serde_json::from_str::<LanguageIdentifier>(js)) {
        Err(p) => out.push(fail("non-string-panicked", format!("{}: {}", js, p))),
        Ok(Ok(v)) => out.push(fail("non-string-accepted", format!("{} deserialised to {}", js, v))),
        Ok(Err(_)) => {}
    }
    if js == "null" {
        // the same non-string shapes through serde's own value deserializers (no JSON involved)
        use serde::de::value::{BoolDeserializer, Error as VErr, F64Deserializer, I64Deserializer, MapDeserializer, SeqDeserializer, U32Deserializer, U64Deserializer, UnitDeserializer};
        use serde::Deserialize;
        let rs: Vec<(&str, Result<Result<LanguageIdentifier, VErr>, String>)> = vec![
            ("unit", guard(|| LanguageIdentifier::deserialize(UnitDeserializer::<VErr>::new()))),
            ("bool", guard(|| LanguageIdentifier::deserialize(BoolDeserializer::<VErr>::new(true)))),
            ("u32 (integer form of 'en')", guard(|| LanguageIdentifier::deserialize(U32Deserializer::<VErr>::new(0x6e65)))),
            ("u64", guard(|| LanguageIdentifier::deserialize(U64Deserializer::<VErr>::new(28261)))),
            ("i64", guard(|| LanguageIdentifier::deserialize(I64Deserializer::<VErr>::new(-1)))),
            ("f64", guard(|| LanguageIdentifier::deserialize(F64Deserializer::<VErr>::new(1.5)))),
            ("seq of str", guard(|| LanguageIdentifier::deserialize(SeqDeserializer::<_, VErr>::new(vec!["en", "US"].into_iter())))),
            ("seq of u8 spelling en-US", guard(|| LanguageIdentifier::deserialize(SeqDeserializer::<_, VErr>::new(b"en-US".to_vec().into_iter())))),
            ("seq of char spelling en", guard(|| LanguageIdentifier::deserialize(SeqDeserializer::<_, VErr>::new(vec!['e', 'n'].into_iter())))),
            ("map", guard(|| LanguageIdentifier::deserialize(MapDeserializer::<_, VErr>::new(vec![("language", "en")].into_iter())))),
        ];
        for (name, r) in rs {
            match r {
                Err(p) => out.push(fail("non-string-panicked", format!("value deserializer {}: {}", name, p))),
                Ok(Ok(v)) => out.push(fail("non-string-accepted", format!("value deserializer {} deserialised to {}", name, v))),
                Ok(Err(_)) => {}
            }
        }
        // bytes and a lone char are string-like for some formats: only "no panic" is required of them
        use serde::de::value::{BytesDeserializer, CharDeserializer};
        if let Err(p) = guard(|| LanguageIdentifier::deserialize(BytesDeserializer::<VErr>::new(b"en-US")).is_ok()) {
            out.push(fail("non-string-panicked", format!("value deserializer bytes: {}", p)));
        }
        if let Err(p) = guard(|| LanguageIdentifier::deserialize(CharDeserializer::<VErr>::new('e')).is_ok()) {
            out.push(fail("non-string-panicked", format!("value deserializer char: {}", p)));
        }
    }
    if let Ok(v) = serde_json::from_str::<Value>(js) {
        match guard(|| serde_json::from_value::<LanguageIdentifier>(v)) {
            Err(p) => out.push(fail("non-string-panicked", format!("from_value {}: {}", js, p))),
            Ok(Ok(v)) => out.push(fail("non-string-accepted", format!("from_value {} deserialised to {}", js, v))),
            Ok(Err(_)) => {}
        }
    }
    out
}

pub fn c19_replay(v: &Value) -> Vec<Fail> {
    if let Some(js) = v["json"].as_str() {
        return c19_check_nonstring(js);
    }
    #[cfg(feature = "likely")]
    if let (Some(of), Some(route)) = (v["of"].as_str(), v["route"].as_str()) {
        if let Ok(mut x) = of.parse::<LanguageIdentifier>() {
            if route == "maximize" {
                x.maximize();
            } else {
                x.minimize();
            }
            return c19_check_value(&x);
        }
    }
    if let Some(s) = v["value"].as_str() {
        if let Ok(l) = s.parse::<LanguageIdentifier>() {
            return c19_check_value(&l);
        }
    }
    vec![fail("bad-replay", "unknown witness shape")]
}

pub fn run_c19(ctx: &mut Ctx) {
    let quick = ctx.quick();
    let cfg = StreamCfg::standard(quick).scaled(if quick { 4 } else { 5 }, if quick { 5 } else { 6 }, if quick { 4 } else { 5 });
    byte_stream(ctx, &cfg, &mut |ctx, b, src| {
        let Ok(s) = std::str::from_utf8(b) else {
            ctx.count("skipped:not-utf8");
            return;
        };
        ctx.evals += 1;
        ctx.count(src.name());
        // judged call first (see run_c03)
        ctx.judge_bytes(b, &mut |c| c19_check_str(c));
        let ok = mon::take_outcome() & 3 == 1;
        ctx.count(if ok { "string:parses" } else { "string:rejected" });
        if ok && ctx.get_count("string:parses") % 16 == 1 {
            for js in spelled_non_strings(s) {
                ctx.count("non-string-json spelling an accepted identifier");
                for f in c19_check_nonstring(&js) {
                    ctx.viol_total += 1;
                    ctx.count_dyn(&format!("violation:{}", f.clause));
                    ctx.add_violation(&f.clause, json!({"json": js}), json!(null), f.detail);
                }
            }
        }
        if crate::refspec::n_subtags(b) >= 2 {
            ctx.sig(crate::refspec::class_seq_hash(19, b, ok as u64));
        }
        if ok && ctx.wants_sample("string") {
            ctx.sample("string", || json!({"input": s, "json_all_escaped": json_escape_all(s), "json_mixed": json_escape_mixed(s)}));
        }
    });
    // reachable values (histories, from_parts, ...)
    let n = if quick { 100_000u64 } else { 5_000_000 } / ctx.nshards as u64;
    let mut r = Rng::new(mix(&[ctx.seed, ctx.shard as u64, 0xC19]));
    for _ in 0..n {
        ctx.rng_state = Some(r.state());
        let (l, route, _) = gen_value(&mut r);
        mon::begin_case(route.as_bytes());
        ctx.evals += 1;
        ctx.count("value:reachable");
        for li in std::iter::once(&l.id).chain(l.extensions.transform.tlang()) {
            let f = c19_check_value(li);
            for f in f {
                ctx.viol_total += 1;
                ctx.count_dyn(&format!("violation:{}", f.clause));
                if ctx.may_minimise(&f.clause) {
                    ctx.add_violation(&f.clause, json!({"value": li.to_string(), "route": route}), json!(null), f.detail);
                }
            }
        }
    }
    ctx.rng_state = None;
    // values only maximize / minimize can produce (their subtags come out of the compiled tables through the
    // unchecked constructors): each must serialise to its canonical string and round-trip like any other
    #[cfg(feature = "likely")]
    if let Ok(lk) = crate::likely::Likely::load() {
        for (i, (k, v)) in lk.entries.iter().enumerate() {
            if i % ctx.nshards != ctx.shard {
                continue;
            }
            for (src, which) in [(k, 0), (k, 1), (v, 1)] {
                let Ok(li) = src.parse::<LanguageIdentifier>() else { continue };
                let mut x = li.clone();
                if guard(|| if which == 0 { x.maximize() } else { x.minimize() }).is_err() {
                    ctx.count("setup: maximize/minimize panicked (value skipped)");
                    continue;
                }
                mon::begin_case(src.as_bytes());
                ctx.evals += 1;
                ctx.count("value:likely-subtags-result");
                for f in c19_check_value(&x) {
                    ctx.viol_total += 1;
                    ctx.count_dyn(&format!("violation:{}", f.clause));
                    if ctx.may_minimise(&f.clause) {
                        ctx.add_violation(&f.clause, json!({"value": x.to_string(), "route": if which == 0 { "maximize" } else { "minimize" }, "of": src}), json!(null), f.detail);
                    }
                }
            }
        }
        mon::idle();
    }
    // non-string JSON
    if ctx.shard == 0 {
        for js in NON_STRINGS {
            ctx.evals += 1;
            ctx.count("non-string-json");
            ctx.sig(SigH::new(0x19).b(js.as_bytes()).fin());
            for f in c19_check_nonstring(js) {
                ctx.viol_total += 1;
                ctx.add_violation(&f.clause, json!({"json": js}), json!(null), f.detail);
            }
        }
        // deep nesting (serde_json's own recursion limit must turn into Err, not a crash)
        let deep = format!("{}{}", "[".repeat(200), "]".repeat(200));
        ctx.evals += 1;
        for f in c19_check_nonstring(&deep) {
            ctx.viol_total += 1;
            ctx.add_violation(&f.clause, json!({"json": "[ x200 ] x200"}), json!(null), f.detail);
        }
        ctx.sample("non-string", || json!({"json": NON_STRINGS}));
    }
    mon::idle();
    ctx.extra.insert("workload".into(), json!(format!("UTF-8 inputs of [{}] each deserialised from 3 JSON renderings (plain, every char \\uXXXX, mixed) and from serde_json::Value, compared with FromStr; {} reachable values serialised / round-tripped; {} non-string JSON documents", cfg.describe(), n * ctx.nshards as u64, NON_STRINGS.len() + 1)));
    ctx.extra.insert("floors".into(), json!({"string:parses": 10000, "string:rejected": 10000, "value:reachable": 10000, "non-string-json": 10}));
}
