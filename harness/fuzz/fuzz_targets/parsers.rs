#![no_main]
//! libFuzzer target: every byte-string monitor (C01 C02 C03 C04 C05 C09 C13 C15 C19) on each input.
use libfuzzer_sys::fuzz_target;
use std::cell::RefCell;
use vmon::engines::fuzzrec::Rec;

thread_local! { static REC: RefCell<Option<Rec>> = RefCell::new(None); }

fuzz_target!(|data: &[u8]| {
    REC.with(|r| {
        let mut r = r.borrow_mut();
        let rec = r.get_or_insert_with(Rec::new);
        rec.check_bytes(data);
    });
});
