//! Glue between libFuzzer (harness/fuzz) and the per-input monitors: every fuzz input is pushed
//! through the same checkers the sharded workloads use; failures are appended to a JSON-lines
//! record file instead of aborting, so one fuzz run observes many distinct violations and the
//! driver attributes them to properties afterwards. Library panics are caught by `guard` inside
//! the checkers (the recording panic hook replaces libFuzzer's aborting one).

use crate::engines::{parse, raw, subtags, total};
use crate::mon::{self, Fail};
use crate::refspec::{self, LiVerdict, Zone};
use std::collections::HashMap;
use std::io::Write;

pub struct Rec {
    out_dir: Option<String>,
    seen: HashMap<(String, String), u32>,
    pub execs: u64,
    pub counters: HashMap<&'static str, u64>,
    sigs: std::collections::HashSet<u64>,
    only: Option<Vec<String>>,
}

impl Rec {
    pub fn new() -> Rec {
        mon::install_panic_hook();
        Rec { out_dir: std::env::var("VMON_FUZZ_OUT").ok(), seen: HashMap::new(), execs: 0, counters: HashMap::new(), sigs: Default::default(),
              only: std::env::var("VMON_FUZZ_PROPS").ok().map(|v| v.split(',').map(|x| x.trim().to_string()).collect()) }
    }

    fn record(&mut self, prop: &str, engine: &str, tag: Option<u8>, input: &[u8], f: &Fail) {
        let k = (prop.to_string(), f.clause.clone());
        let n = self.seen.entry(k).or_insert(0);
        *n += 1;
        if *n > 6 {
            return;
        }
        let mut tagged = Vec::with_capacity(input.len() + 1);
        if let Some(t) = tag {
            tagged.push(t);
        }
        tagged.extend_from_slice(input);
        let line = serde_json::json!({"property": prop, "engine": engine, "clause": f.clause, "detail": f.detail.chars().take(600).collect::<String>(),
                                      "hex": mon::hex(&tagged), "text": String::from_utf8_lossy(input)});
        if let Some(d) = &self.out_dir {
            let p = format!("{}/records.{}.jsonl", d, std::process::id());
            if let Ok(mut fh) = std::fs::OpenOptions::new().create(true).append(true).open(p) {
                let _ = writeln!(fh, "{}", line);
            }
        } else {
            eprintln!("FUZZ-VIOLATION {}", line);
        }
    }

    fn want(&self, prop: &str) -> bool {
        self.only.as_ref().map_or(true, |v| v.iter().any(|x| x == prop))
    }

    fn bump(&mut self, k: &'static str) {
        *self.counters.entry(k).or_insert(0) += 1;
    }

    pub fn flush_stats(&self) {
        if let Some(d) = &self.out_dir {
            let p = format!("{}/stats.{}.json", d, std::process::id());
            let c: serde_json::Map<String, serde_json::Value> = self.counters.iter().map(|(k, v)| (k.to_string(), serde_json::json!(v))).collect();
            let _ = std::fs::write(p, serde_json::json!({"execs": self.execs, "counters": c, "distinct_class_sequences": self.sigs.len()}).to_string());
            let mut raw = Vec::with_capacity(self.sigs.len() * 8);
            for x in &self.sigs {
                raw.extend_from_slice(&x.to_le_bytes());
            }
            let _ = std::fs::write(format!("{}/sigs.{}.bin", d, std::process::id()), raw);
        }
    }

    /// All byte-string monitors on one input.
    pub fn check_bytes(&mut self, b: &[u8]) {
        self.execs += 1;
        mon::begin_case(b);
        // what kind of input did the fuzzer find? (evidence: zones actually observed)
        match refspec::classify_langid(b) {
            LiVerdict::Accept(_) => self.bump("langid:accept"),
            LiVerdict::RejectLanguage => self.bump("langid:reject-language"),
            LiVerdict::RejectSubtag => self.bump("langid:reject-subtag"),
        }
        match refspec::classify_locale(b) {
            Zone::MustAccept(_) => self.bump("locale:must-accept"),
            Zone::MustReject(_) => self.bump("locale:must-reject"),
            Zone::Either(..) => self.bump("locale:either"),
            Zone::EitherAny(_) => self.bump("locale:either-any"),
            Zone::Outside(_) => self.bump("locale:outside"),
        }
        if refspec::n_subtags(b) >= 2 {
            self.sigs.insert(refspec::class_seq_hash(0xF0, b, 0));
        }
        if self.want("C01") {
            for ep in 0..total::EPS.len() {
                for f in total::c01_check_ep(ep, b) {
                    self.record("C01", "c01", Some(ep as u8), b, &f);
                }
            }
        }
        if self.want("C02") {
            for f in parse::c02_check(b) {
                self.record("C02", "c02", None, b, &f);
            }
        }
        if self.want("C03") {
            for f in parse::c03_check(b) {
                self.record("C03", "c03", None, b, &f);
            }
        }
        if self.want("C04") {
            for f in parse::c04_check(b) {
                self.record("C04", "c04", None, b, &f);
            }
        }
        if self.want("C05") {
            for f in parse::c05_check(b) {
                self.record("C05", "c05", None, b, &f);
            }
        }
        if self.want("C13") {
            for f in parse::c13_check(b) {
                self.record("C13", "c13", None, b, &f);
            }
        }
        if self.want("C09") {
            let mut tagged = Vec::with_capacity(b.len() + 1);
            for mode in 0..6u8 {
                tagged.clear();
                tagged.push(mode);
                tagged.extend_from_slice(b);
                for f in parse::c09_check_masks(&tagged) {
                    self.record("C09", "c09", Some(mode), b, &f);
                }
            }
        }
        if self.want("C15") && b.len() <= 12 {
            for (i, k) in subtags::KINDS.iter().enumerate() {
                for f in subtags::c15_check_kind(*k, b) {
                    self.record("C15", "c15", Some(i as u8), b, &f);
                }
            }
        }
        if self.want("C19") {
            for f in raw::c19_check_str(b) {
                self.record("C19", "c19", None, b, &f);
            }
        }
        mon::idle();
        if self.execs % 2048 == 0 {
            self.flush_stats();
        }
    }

    /// Operation histories decoded from fuzz bytes: byte 0 picks the start value, every further
    /// byte picks an operation of the G-hist alphabet; run in lock step with the model (C10; the
    /// step monitor also re-parses and checks the serialised form, i.e. C04/C05 on every state).
    pub fn check_history(&mut self, b: &[u8], alphabet: &[crate::model::Op], likely: Option<&crate::likely::Likely>) {
        self.execs += 1;
        if b.is_empty() {
            return;
        }
        let start = crate::model::START_VALUES[b[0] as usize % crate::model::START_VALUES.len()];
        let ops: Vec<crate::model::Op> = b[1..].iter().take(48).map(|x| alphabet[*x as usize % alphabet.len()].clone()).collect();
        self.bump("histories");
        *self.counters.entry("history-steps").or_insert(0) += ops.len() as u64;
        let fails = crate::model::run_history(start, &ops, likely);
        for (i, f) in fails {
            let k = ("C10".to_string(), f.clause.clone());
            let n = self.seen.entry(k).or_insert(0);
            *n += 1;
            if *n > 6 {
                continue;
            }
            let line = serde_json::json!({"property": "C10", "engine": "c10", "clause": f.clause, "detail": f.detail.chars().take(600).collect::<String>(),
                                          "history": crate::model::history_json(start, &ops[..=i.min(ops.len() - 1)])});
            if let Some(d) = &self.out_dir {
                let p = format!("{}/records.{}.jsonl", d, std::process::id());
                if let Ok(mut fh) = std::fs::OpenOptions::new().create(true).append(true).open(p) {
                    let _ = writeln!(fh, "{}", line);
                }
            } else {
                eprintln!("FUZZ-VIOLATION {}", line);
            }
        }
        if self.execs % 2048 == 0 {
            self.flush_stats();
        }
    }
}
