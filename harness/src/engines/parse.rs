//! Parser-side monitors: C02 (langid grammar), C03 (locale zones), C13 (superset).
//! The per-input checkers are plain functions so that the shrinker and `replay` reuse them.

use crate::gen;
use crate::mon::{self, fail, guard, Ctx, Fail};
use crate::obs::{obs_li, obs_loc, order_facts};
use crate::refspec::{self, classify_langid, classify_locale, LiVerdict, Zone};
use crate::rng::{mix, Rng};
use crate::stream::{byte_stream, StreamCfg};
use serde_json::json;
use unic_langid_impl::parser::ParserError as LiParserError;
use unic_langid_impl::{LanguageIdentifier, LanguageIdentifierError};
use unic_locale_impl::{ExtensionsMap, Locale};

fn lossy(b: &[u8]) -> String {
    String::from_utf8_lossy(b).into_owned()
}

// ------------------------------------------------------------------ C02

pub fn c02_check(input: &[u8]) -> Vec<Fail> {
    let mut out = vec![];
    let v = classify_langid(input);
    let r = guard(|| LanguageIdentifier::from_bytes(input));
    match (&v, &r) {
        (_, Err(p)) => out.push(fail("panic", format!("from_bytes panicked: {}", p))),
        (LiVerdict::Accept(e), Ok(Ok(li))) => {
            let o = obs_li(li);
            if o != *e {
                out.push(fail("accept-value", format!("expected {:?}, observed {:?}", e, o)));
            }
            let s = li.to_string();
            if s != e.canon() {
                out.push(fail("accept-string", format!("expected {:?}, to_string() = {:?}", e.canon(), s)));
            }
        }
        (LiVerdict::Accept(e), Ok(Err(err))) => out.push(fail(
            "must-accept-rejected",
            format!("well-formed language identifier (= {}) rejected with {:?}", e.canon(), err),
        )),
        (LiVerdict::RejectLanguage, Ok(Err(err))) => {
            if *err != LanguageIdentifierError::ParserError(LiParserError::InvalidLanguage) {
                out.push(fail("error-kind", format!("first subtag is not a language: expected InvalidLanguage, got {:?}", err)));
            }
        }
        (LiVerdict::RejectSubtag, Ok(Err(err))) => {
            if *err != LanguageIdentifierError::ParserError(LiParserError::InvalidSubtag) {
                out.push(fail("error-kind", format!("first subtag is a language: expected InvalidSubtag, got {:?}", err)));
            }
        }
        (_, Ok(Ok(li))) => out.push(fail(
            "must-reject-accepted",
            format!("ill-formed ({}) but parsed to {:?}", v.name(), li.to_string()),
        )),
    }
    // the other entry points must agree with from_bytes
    if let Ok(base) = &r {
        match guard(|| unic_langid_impl::parser::parse_language_identifier(input)) {
            Err(p) => out.push(fail("panic", format!("parse_language_identifier panicked: {}", p))),
            Ok(x) => {
                let same = match (base, &x) {
                    (Ok(a), Ok(b)) => a == b,
                    (Err(LanguageIdentifierError::ParserError(a)), Err(b)) => a == b,
                    _ => false,
                };
                if !same {
                    out.push(fail("entry-points-disagree", format!("from_bytes = {:?}, parse_language_identifier = {:?}", base, x)));
                }
            }
        }
        match guard(|| unic_langid_impl::canonicalize(input)) {
            Err(p) => out.push(fail("panic", format!("canonicalize panicked: {}", p))),
            Ok(x) => {
                let same = match (base, &x) {
                    (Ok(a), Ok(s)) => a.to_string() == *s,
                    (Err(a), Err(b)) => a == b,
                    _ => false,
                };
                if !same {
                    out.push(fail("entry-points-disagree", format!("from_bytes = {:?}, canonicalize = {:?}", base, x)));
                }
            }
        }
        if let Ok(s) = std::str::from_utf8(input) {
            match guard(|| s.parse::<LanguageIdentifier>()) {
                Err(p) => out.push(fail("panic", format!("from_str panicked: {}", p))),
                Ok(x) => {
                    if x != *base {
                        out.push(fail("entry-points-disagree", format!("from_bytes = {:?}, from_str = {:?}", base, x)));
                    }
                }
            }
        }
    }
    out
}

pub fn run_c02(ctx: &mut Ctx) {
    let cfg = StreamCfg::standard(ctx.quick());
    ctx.extra.insert("workload".into(), json!(cfg.describe()));
    byte_stream(ctx, &cfg, &mut |ctx, b, src| {
        ctx.evals += 1;
        ctx.count(src.name());
        let v = classify_langid(b);
        let vn = v.name();
        ctx.count(vn);
        if refspec::n_subtags(b) >= 2 {
            ctx.sig(refspec::class_seq_hash(2, b, match v { LiVerdict::Accept(_) => 1, LiVerdict::RejectLanguage => 2, LiVerdict::RejectSubtag => 3 }));
        }
        if ctx.wants_sample(vn) && refspec::n_subtags(b) >= 2 {
            ctx.sample(vn, || json!({"input": lossy(b), "oracle": vn}));
        }
        ctx.judge_bytes(b, &mut |c| c02_check(c));
    });
}

// ------------------------------------------------------------------ C03

pub fn c03_check(input: &[u8]) -> Vec<Fail> {
    let mut out = vec![];
    let z = classify_locale(input);
    let r = guard(|| Locale::from_bytes(input));
    match (&z, &r) {
        (Zone::MustReject(why), Err(p)) => out.push(fail("must-reject-panicked", format!("ill-formed ({}) must return an error, but panicked: {}", why, p))),
        (_, Err(p)) => out.push(fail("panic", format!("Locale::from_bytes panicked: {}", p))),
        (Zone::MustAccept(e), Ok(Ok(l))) => {
            let o = obs_loc(l);
            if o != *e {
                out.push(fail("accept-value", format!("expected {:?}, observed {:?}", e, o)));
            } else {
                let s = l.to_string();
                if s != e.canon() {
                    out.push(fail("accept-string", format!("expected {:?}, to_string() = {:?}", e.canon(), s)));
                }
            }
            for b in order_facts(l) {
                out.push(fail("accept-order", b));
            }
        }
        (Zone::MustAccept(e), Ok(Err(err))) => out.push(fail(
            "must-accept-rejected",
            format!("well-formed locale (= {}) rejected with {:?}", e.canon(), err),
        )),
        (Zone::MustReject(why), Ok(Ok(l))) => out.push(fail(
            "must-reject-accepted",
            format!("ill-formed ({}) but parsed to {:?}", why, l.to_string()),
        )),
        (Zone::MustReject(_), Ok(Err(_))) => {}
        (Zone::Either(e, why), Ok(Ok(l))) => {
            let o = obs_loc(l);
            if o != *e {
                out.push(fail("either-value", format!("latitude ({}): accepted, but value {:?} differs from the input with the emptiness removed {:?}", why, o, e)));
            }
        }
        (Zone::Either(..), Ok(Err(_))) => {}
        (Zone::EitherAny(_), _) | (Zone::Outside(_), _) => {}
    }
    if let Ok(base) = &r {
        match guard(|| unic_locale_impl::parser::parse_locale(input)) {
            Err(p) => out.push(fail("panic", format!("parse_locale panicked: {}", p))),
            Ok(x) => {
                let same = match (base, &x) {
                    (Ok(a), Ok(b)) => a == b,
                    (Err(_), Err(_)) => true,
                    _ => false,
                };
                if !same {
                    out.push(fail("entry-points-disagree", format!("from_bytes = {:?}, parse_locale = {:?}", base, x)));
                }
            }
        }
        if let Ok(s) = std::str::from_utf8(input) {
            match guard(|| s.parse::<Locale>()) {
                Err(p) => out.push(fail("panic", format!("from_str panicked: {}", p))),
                Ok(x) => {
                    let same = match (base, &x) {
                        (Ok(a), Ok(b)) => a == b,
                        (Err(_), Err(_)) => true,
                        _ => false,
                    };
                    if !same {
                        out.push(fail("entry-points-disagree", format!("from_bytes = {:?}, from_str = {:?}", base, x)));
                    }
                }
            }
        }
    }
    out
}

fn outcome_name<T, E>(r: &Result<Result<T, E>, String>) -> &'static str {
    match r {
        Ok(Ok(_)) => "ok",
        Ok(Err(_)) => "err",
        Err(_) => "panic",
    }
}

pub fn run_c03(ctx: &mut Ctx) {
    let cfg = StreamCfg::standard(ctx.quick());
    ctx.extra.insert("workload".into(), json!(cfg.describe()));
    byte_stream(ctx, &cfg, &mut |ctx, b, src| {
        ctx.evals += 1;
        ctx.count(src.name());
        let z = classify_locale(b);
        let r = guard(|| Locale::from_bytes(b));
        let key: &'static str = match (z.name(), outcome_name(&r)) {
            ("must_accept", "ok") => "zone:must_accept/ok",
            ("must_accept", "err") => "zone:must_accept/err",
            ("must_reject", "ok") => "zone:must_reject/ok",
            ("must_reject", "err") => "zone:must_reject/err",
            ("either", "ok") => "zone:either/ok",
            ("either", "err") => "zone:either/err",
            ("either_any", "ok") => "zone:either_any/ok",
            ("either_any", "err") => "zone:either_any/err",
            ("outside", "ok") => "zone:outside/ok",
            ("outside", "err") => "zone:outside/err",
            _ => "zone:*/panic",
        };
        ctx.count(key);
        let has_ext_part = match &z {
            Zone::MustAccept(l) | Zone::Either(l, _) => l.has_ext() || matches!(z, Zone::Either(..)),
            _ => refspec::n_subtags(b) >= 2,
        };
        if has_ext_part {
            let mut h = mon::SigH::new(3);
            h.b(key.as_bytes()).b(z.reason().as_bytes());
            ctx.sig(refspec::class_seq_hash(h.fin(), b, 0));
        }
        let cat = format!("{}:{}", z.name(), z.reason());
        if ctx.wants_sample(&cat) && refspec::n_subtags(b) >= 2 {
            ctx.sample(&cat, || json!({"input": lossy(b), "zone": z.name(), "reason": z.reason(), "library": outcome_name(&r)}));
        }
        ctx.judge_bytes(b, &mut |c| c03_check(c));
    });
    // G-struct with by-construction expectations (guards the oracle as well as the library)
    let n = if ctx.quick() { 200_000u64 } else { 10_000_000 } / ctx.nshards as u64;
    let mut r = Rng::new(mix(&[ctx.seed, ctx.shard as u64, 0xC03]));
    for _ in 0..n {
        ctx.rng_state = Some(r.state());
        let sl = gen::gen_sloc(&mut r, false, true);
        let b = gen::render_random(&sl.tokens(), &mut r);
        mon::begin_case(&b);
        ctx.evals += 1;
        ctx.count("g_struct_by_construction");
        let exp = sl.expected();
        match classify_locale(&b) {
            Zone::MustAccept(e) if e == exp => {}
            z => {
                // the two independent oracles disagree: harness defect, never a library violation
                ctx.notes.push(format!("ORACLE-DISAGREEMENT input={:?} construction={:?} recogniser={:?}", lossy(&b), exp, z));
                ctx.count("oracle_disagreement");
                continue;
            }
        }
        ctx.judge_bytes(&b, &mut |c| c03_check(c));
    }
    ctx.rng_state = None;
    mon::idle();
}

// ------------------------------------------------------------------ C13

pub fn c13_check(input: &[u8]) -> Vec<Fail> {
    let mut out = vec![];
    let li = guard(|| LanguageIdentifier::from_bytes(input));
    let lo = guard(|| Locale::from_bytes(input));
    if let Err(p) = &li {
        out.push(fail("panic", format!("LanguageIdentifier::from_bytes panicked: {}", p)));
    }
    if let Err(p) = &lo {
        out.push(fail("panic", format!("Locale::from_bytes panicked: {}", p)));
    }
    let (Ok(li), Ok(lo)) = (li, lo) else { return out };
    if let Ok(li) = &li {
        match &lo {
            Err(e) => out.push(fail("langid-ok-locale-err", format!("LanguageIdentifier accepts ({}), Locale rejects with {:?}", li, e))),
            Ok(loc) => {
                if loc.id != *li {
                    out.push(fail("id-differs", format!("LanguageIdentifier = {}, Locale.id = {}", li, loc.id)));
                }
                if !loc.extensions.is_empty() || loc.extensions != ExtensionsMap::default() {
                    out.push(fail("spurious-extensions", format!("Locale has extensions {:?}", loc.extensions.to_string())));
                }
                if loc.to_string() != li.to_string() {
                    out.push(fail("string-differs", format!("{} vs {}", loc, li)));
                }
            }
        }
    }
    if let Ok(loc) = &lo {
        // id == LanguageIdentifier parsed from the part before the first singleton subtag
        let toks = refspec::split(input);
        let cut = toks.iter().position(|t| t.len() == 1);
        let prefix_len = match cut {
            None => input.len(),
            Some(k) => toks[..k].iter().map(|t| t.len() + 1).sum::<usize>().saturating_sub(1),
        };
        // only judged for well-formed locale strings (statement: "for every well-formed locale string")
        let wf = matches!(classify_locale(input), Zone::MustAccept(_));
        if wf {
            match guard(|| LanguageIdentifier::from_bytes(&input[..prefix_len])) {
                Ok(Ok(p)) => {
                    if p != loc.id {
                        out.push(fail("prefix-id-differs", format!("prefix parses to {}, Locale.id = {}", p, loc.id)));
                    }
                }
                Ok(Err(e)) => out.push(fail("prefix-rejected", format!("Locale accepted, but its language-id prefix {:?} is rejected: {:?}", lossy(&input[..prefix_len]), e))),
                Err(p) => out.push(fail("panic", p)),
            }
        }
        // conversions
        let id2: LanguageIdentifier = loc.clone().into();
        if id2 != loc.id {
            out.push(fail("into-langid", format!("{} vs {}", id2, loc.id)));
        }
        let back: Locale = id2.clone().into();
        if back.id != loc.id || !back.extensions.is_empty() {
            out.push(fail("from-langid", format!("{:?}", back.to_string())));
        }
        let full = loc.to_string();
        let ext = loc.extensions.to_string();
        if !full.ends_with(&ext) || back.to_string() != full[..full.len() - ext.len()] {
            out.push(fail("drops-exactly-extensions", format!("{:?} minus {:?} != {:?}", full, ext, back.to_string())));
        }
        let rt: LanguageIdentifier = Locale::from(id2.clone()).into();
        if rt != id2 {
            out.push(fail("langid-locale-langid", format!("{} vs {}", rt, id2)));
        }
        let asr: &LanguageIdentifier = loc.as_ref();
        if *asr != loc.id {
            out.push(fail("as-ref", "AsRef<LanguageIdentifier> differs from id"));
        }
    }
    out
}

pub fn run_c13(ctx: &mut Ctx) {
    let cfg = StreamCfg::standard(ctx.quick());
    ctx.extra.insert("workload".into(), json!(cfg.describe()));
    byte_stream(ctx, &cfg, &mut |ctx, b, src| {
        ctx.evals += 1;
        ctx.count(src.name());
        let a = guard(|| LanguageIdentifier::from_bytes(b));
        let c = guard(|| Locale::from_bytes(b));
        let key: &'static str = match (outcome_name(&a), outcome_name(&c)) {
            ("ok", "ok") => "langid_ok/locale_ok",
            ("ok", "err") => "langid_ok/locale_err",
            ("err", "ok") => "langid_err/locale_ok",
            ("err", "err") => "langid_err/locale_err",
            _ => "panic",
        };
        ctx.count(key);
        if refspec::n_subtags(b) >= 2 {
            ctx.sig(refspec::class_seq_hash(13, b, mon::SigH::new(0).b(key.as_bytes()).fin()));
        }
        if ctx.wants_sample(key) && refspec::n_subtags(b) >= 2 {
            ctx.sample(key, || json!({"input": lossy(b), "outcomes": key}));
        }
        ctx.judge_bytes(b, &mut |c| c13_check(c));
    });
}
