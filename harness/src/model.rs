//! R-model: plain sorted-set / ordered-map model of a Locale, the operation alphabet of
//! G-hist, and the lock-step comparison used by C10 (and, through the values it manufactures,
//! by C04/C05/C12/C17/C19).

use crate::likely::Likely;
use crate::mon::{fail, guard, Fail};
use crate::obs::{obs_li, obs_loc};
use crate::refspec::{self, LangId, Loc};
use crate::rng::Rng;
use serde_json::{json, Value};
use unic_langid_impl::subtags::{Language, Region, Script, Variant};
use unic_langid_impl::LanguageIdentifier;
use unic_locale_impl::Locale;

#[derive(Clone, Debug, PartialEq, Eq)]
pub enum Op {
    SetLanguage(Vec<u8>),
    ClearLanguage,
    SetScript(Option<Vec<u8>>),
    SetRegion(Option<Vec<u8>>),
    SetVariants(Vec<Vec<u8>>),
    ClearVariants,
    SetKeyword(Vec<u8>, Vec<Vec<u8>>),
    RemoveKeyword(Vec<u8>),
    ClearKeywords,
    SetAttribute(Vec<u8>),
    RemoveAttribute(Vec<u8>),
    ClearAttributes,
    SetTlang(Vec<u8>),
    ClearTlang,
    SetTfield(Vec<u8>, Vec<Vec<u8>>),
    RemoveTfield(Vec<u8>),
    ClearTfields,
    AddTag(Vec<u8>),
    RemoveTag(Vec<u8>),
    ClearTags,
    Maximize,
    Minimize,
    // queries with arbitrary arguments
    QKeyword(Vec<u8>),
    QHasAttribute(Vec<u8>),
    QTfield(Vec<u8>),
    QHasTag(Vec<u8>),
    QHasVariant(Vec<u8>),
    /// the value is copied onto an already populated value with `Clone::clone_from` (mode = byte % 3: whole value,
    /// field by field, or plain `clone()` as the control) and that copy carries on; the logical state must not change
    CloneOnto(u8),
}

/// Populated values a history's value is cloned onto (stale variants, attributes, keywords, tlang, tfields, tags).
pub const DIRTY: &[&str] = &[
    "ca-Latn-ES-valencia-1996-u-attr-zzz-ca-gregory-nu-thai-t-de-1996-k0-dvorak-m0-names-x-priv-zz",
    "sr-Cyrl-RS-u-foo-t-en-h0-hybrid",
    "und-x-a-b-c",
    "abcdefgh-macos",
];

fn bj(b: &[u8]) -> Value {
    match std::str::from_utf8(b) {
        Ok(s) if s.bytes().all(|c| (0x20..0x7f).contains(&c)) => json!(s),
        _ => json!({"hex": crate::mon::hex(b)}),
    }
}
fn jb(v: &Value) -> Vec<u8> {
    match v {
        Value::String(s) => s.clone().into_bytes(),
        Value::Object(o) => crate::mon::unhex(o.get("hex").and_then(|h| h.as_str()).unwrap_or("")),
        _ => vec![],
    }
}
fn bjs(v: &[Vec<u8>]) -> Value {
    Value::Array(v.iter().map(|b| bj(b)).collect())
}
fn jbs(v: &Value) -> Vec<Vec<u8>> {
    v.as_array().map(|a| a.iter().map(jb).collect()).unwrap_or_default()
}

impl Op {
    pub fn kind(&self) -> &'static str {
        match self {
            Op::SetLanguage(_) => "set_language",
            Op::ClearLanguage => "clear_language",
            Op::SetScript(_) => "set_script",
            Op::SetRegion(_) => "set_region",
            Op::SetVariants(_) => "set_variants",
            Op::ClearVariants => "clear_variants",
            Op::SetKeyword(..) => "set_keyword",
            Op::RemoveKeyword(_) => "remove_keyword",
            Op::ClearKeywords => "clear_keywords",
            Op::SetAttribute(_) => "set_attribute",
            Op::RemoveAttribute(_) => "remove_attribute",
            Op::ClearAttributes => "clear_attributes",
            Op::SetTlang(_) => "set_tlang",
            Op::ClearTlang => "clear_tlang",
            Op::SetTfield(..) => "set_tfield",
            Op::RemoveTfield(_) => "remove_tfield",
            Op::ClearTfields => "clear_tfields",
            Op::AddTag(_) => "add_tag",
            Op::RemoveTag(_) => "remove_tag",
            Op::ClearTags => "clear_tags",
            Op::Maximize => "maximize",
            Op::Minimize => "minimize",
            Op::QKeyword(_) => "keyword?",
            Op::QHasAttribute(_) => "has_attribute?",
            Op::QTfield(_) => "tfield?",
            Op::QHasTag(_) => "has_tag?",
            Op::QHasVariant(_) => "has_variant?",
            Op::CloneOnto(_) => "clone_onto",
        }
    }
    pub fn to_json(&self) -> Value {
        let k = self.kind();
        match self {
            Op::SetLanguage(a) | Op::RemoveKeyword(a) | Op::SetAttribute(a) | Op::RemoveAttribute(a) | Op::SetTlang(a)
            | Op::RemoveTfield(a) | Op::AddTag(a) | Op::RemoveTag(a) | Op::QKeyword(a) | Op::QHasAttribute(a)
            | Op::QTfield(a) | Op::QHasTag(a) | Op::QHasVariant(a) => json!([k, bj(a)]),
            Op::SetScript(a) | Op::SetRegion(a) => json!([k, a.as_ref().map(|x| bj(x))]),
            Op::SetVariants(v) => json!([k, bjs(v)]),
            Op::SetKeyword(a, v) | Op::SetTfield(a, v) => json!([k, bj(a), bjs(v)]),
            Op::CloneOnto(x) => json!([k, *x]),
            _ => json!([k]),
        }
    }
    pub fn from_json(v: &Value) -> Option<Op> {
        let a = v.as_array()?;
        let k = a.first()?.as_str()?;
        let a1 = || a.get(1).map(jb).unwrap_or_default();
        Some(match k {
            "set_language" => Op::SetLanguage(a1()),
            "clear_language" => Op::ClearLanguage,
            "set_script" => Op::SetScript(a.get(1).filter(|x| !x.is_null()).map(jb)),
            "set_region" => Op::SetRegion(a.get(1).filter(|x| !x.is_null()).map(jb)),
            "set_variants" => Op::SetVariants(a.get(1).map(jbs).unwrap_or_default()),
            "clear_variants" => Op::ClearVariants,
            "set_keyword" => Op::SetKeyword(a1(), a.get(2).map(jbs).unwrap_or_default()),
            "remove_keyword" => Op::RemoveKeyword(a1()),
            "clear_keywords" => Op::ClearKeywords,
            "set_attribute" => Op::SetAttribute(a1()),
            "remove_attribute" => Op::RemoveAttribute(a1()),
            "clear_attributes" => Op::ClearAttributes,
            "set_tlang" => Op::SetTlang(a1()),
            "clear_tlang" => Op::ClearTlang,
            "set_tfield" => Op::SetTfield(a1(), a.get(2).map(jbs).unwrap_or_default()),
            "remove_tfield" => Op::RemoveTfield(a1()),
            "clear_tfields" => Op::ClearTfields,
            "add_tag" => Op::AddTag(a1()),
            "remove_tag" => Op::RemoveTag(a1()),
            "clear_tags" => Op::ClearTags,
            "maximize" => Op::Maximize,
            "minimize" => Op::Minimize,
            "keyword?" => Op::QKeyword(a1()),
            "has_attribute?" => Op::QHasAttribute(a1()),
            "tfield?" => Op::QTfield(a1()),
            "has_tag?" => Op::QHasTag(a1()),
            "has_variant?" => Op::QHasVariant(a1()),
            "clone_onto" => Op::CloneOnto(a.get(1).and_then(|x| x.as_u64()).unwrap_or(0) as u8),
            _ => return None,
        })
    }
}

/// What a call returned, in a form comparable between library and model.
#[derive(Clone, Debug, PartialEq, Eq)]
pub enum Ret {
    Unit,
    Bool(bool),
    Err,
    List(Vec<String>),
    /// maximize/minimize: judged separately
    Changed(bool),
}

impl Ret {
    pub fn kind_id(&self) -> u64 {
        match self {
            Ret::Unit => 0,
            Ret::Bool(false) => 1,
            Ret::Bool(true) => 2,
            Ret::Err => 3,
            Ret::List(v) => 4 + (v.len().min(3) as u64),
            Ret::Changed(false) => 8,
            Ret::Changed(true) => 9,
        }
    }
}

fn vals_model(vals: &[Vec<u8>], ok: fn(&[u8]) -> bool) -> Option<Vec<String>> {
    let mut out = vec![];
    for v in vals {
        if !ok(v) {
            return None;
        }
        let l = refspec::lower(v);
        if l != "true" {
            out.push(l);
        }
    }
    Some(out)
}

/// Apply `op` to the model. Maximize/Minimize are not modelled here (see `step`).
pub fn apply_model(m: &mut Loc, op: &Op) -> Ret {
    match op {
        Op::SetLanguage(a) => {
            if refspec::is_lang(a) {
                m.id.lang = refspec::lower(a);
                Ret::Unit
            } else {
                Ret::Err
            }
        }
        Op::ClearLanguage => {
            m.id.lang = "und".into();
            Ret::Unit
        }
        Op::SetScript(None) => {
            m.id.script = None;
            Ret::Unit
        }
        Op::SetScript(Some(a)) => {
            if refspec::is_script(a) {
                m.id.script = Some(refspec::title(a));
                Ret::Unit
            } else {
                Ret::Err
            }
        }
        Op::SetRegion(None) => {
            m.id.region = None;
            Ret::Unit
        }
        Op::SetRegion(Some(a)) => {
            if refspec::is_region(a) {
                m.id.region = Some(refspec::upper(a));
                Ret::Unit
            } else {
                Ret::Err
            }
        }
        Op::SetVariants(vs) => {
            if vs.iter().all(|v| refspec::is_variant(v)) {
                let mut x: Vec<String> = vs.iter().map(|v| refspec::lower(v)).collect();
                x.sort();
                x.dedup();
                m.id.variants = x;
                Ret::Unit
            } else {
                Ret::Err
            }
        }
        Op::ClearVariants => {
            m.id.variants.clear();
            Ret::Unit
        }
        Op::SetKeyword(k, vs) => {
            if !refspec::is_ukey(k) {
                return Ret::Err;
            }
            match vals_model(vs, refspec::is_utype) {
                None => Ret::Err,
                Some(v) => {
                    m.keywords.insert(refspec::lower(k), v);
                    Ret::Unit
                }
            }
        }
        Op::RemoveKeyword(k) => {
            if !refspec::is_ukey(k) {
                return Ret::Err;
            }
            Ret::Bool(m.keywords.remove(&refspec::lower(k)).is_some())
        }
        Op::ClearKeywords => {
            m.keywords.clear();
            Ret::Unit
        }
        Op::SetAttribute(a) => {
            if !refspec::is_attr(a) {
                return Ret::Err;
            }
            let l = refspec::lower(a);
            if let Err(i) = m.attrs.binary_search(&l) {
                m.attrs.insert(i, l);
            }
            Ret::Unit
        }
        Op::RemoveAttribute(a) => {
            if !refspec::is_attr(a) {
                return Ret::Err;
            }
            let l = refspec::lower(a);
            match m.attrs.iter().position(|x| *x == l) {
                Some(i) => {
                    m.attrs.remove(i);
                    Ret::Bool(true)
                }
                None => Ret::Bool(false),
            }
        }
        Op::ClearAttributes => {
            m.attrs.clear();
            Ret::Unit
        }
        Op::SetTlang(a) => match refspec::classify_langid(a) {
            refspec::LiVerdict::Accept(id) => {
                m.tlang = Some(id);
                Ret::Unit
            }
            _ => Ret::Err,
        },
        Op::ClearTlang => {
            m.tlang = None;
            Ret::Unit
        }
        Op::SetTfield(k, vs) => {
            if !refspec::is_tkey(k) {
                return Ret::Err;
            }
            match vals_model(vs, refspec::is_tvalue) {
                None => Ret::Err,
                Some(v) => {
                    m.tfields.insert(refspec::lower(k), v);
                    Ret::Unit
                }
            }
        }
        Op::RemoveTfield(k) => {
            if !refspec::is_tkey(k) {
                return Ret::Err;
            }
            Ret::Bool(m.tfields.remove(&refspec::lower(k)).is_some())
        }
        Op::ClearTfields => {
            m.tfields.clear();
            Ret::Unit
        }
        Op::AddTag(t) => {
            if !refspec::is_private(t) {
                return Ret::Err;
            }
            m.private.push(refspec::lower(t));
            m.private.sort();
            Ret::Unit
        }
        Op::RemoveTag(t) => {
            if !refspec::is_private(t) {
                return Ret::Err;
            }
            let l = refspec::lower(t);
            match m.private.iter().position(|x| *x == l) {
                Some(i) => {
                    m.private.remove(i);
                    Ret::Bool(true)
                }
                None => Ret::Bool(false),
            }
        }
        Op::ClearTags => {
            m.private.clear();
            Ret::Unit
        }
        Op::QKeyword(k) => {
            if !refspec::is_ukey(k) {
                return Ret::Err;
            }
            Ret::List(m.keywords.get(&refspec::lower(k)).cloned().unwrap_or_default())
        }
        Op::QHasAttribute(a) => {
            if !refspec::is_attr(a) {
                return Ret::Err;
            }
            Ret::Bool(m.attrs.contains(&refspec::lower(a)))
        }
        Op::QTfield(k) => {
            if !refspec::is_tkey(k) {
                return Ret::Err;
            }
            Ret::List(m.tfields.get(&refspec::lower(k)).cloned().unwrap_or_default())
        }
        Op::QHasTag(t) => {
            if !refspec::is_private(t) {
                return Ret::Err;
            }
            Ret::Bool(m.private.contains(&refspec::lower(t)))
        }
        Op::QHasVariant(v) => {
            if !refspec::is_variant(v) {
                return Ret::Err;
            }
            Ret::Bool(m.id.variants.contains(&refspec::lower(v)))
        }
        Op::Maximize | Op::Minimize => Ret::Changed(false),
        Op::CloneOnto(_) => Ret::Unit,
    }
}

/// Apply `op` to the library value through the public API only.
pub fn apply_lib(l: &mut Locale, op: &Op) -> Ret {
    fn unit<E>(r: Result<(), E>) -> Ret {
        match r {
            Ok(()) => Ret::Unit,
            Err(_) => Ret::Err,
        }
    }
    fn boolr<E>(r: Result<bool, E>) -> Ret {
        match r {
            Ok(b) => Ret::Bool(b),
            Err(_) => Ret::Err,
        }
    }
    match op {
        // the language is built by one of the three public constructors (from_bytes, TryFrom<Option<_>>, FromStr), chosen by
        // the length of the argument so that a replay makes the same choice: they must agree on every text
        Op::SetLanguage(a) => match {
            use std::convert::TryFrom;
            match (a.len() % 3, std::str::from_utf8(a)) {
                (0, _) => Language::try_from(Some(a.as_slice())).ok(),
                (1, Ok(t)) => t.parse::<Language>().ok(),
                _ => Language::from_bytes(a).ok(),
            }
        }
        .ok_or(())
        {
            Ok(x) => {
                l.id.language = x;
                Ret::Unit
            }
            Err(_) => Ret::Err,
        },
        Op::ClearLanguage => {
            l.id.language.clear();
            Ret::Unit
        }
        Op::SetScript(None) => {
            l.id.script = None;
            Ret::Unit
        }
        Op::SetScript(Some(a)) => match Script::from_bytes(a) {
            Ok(x) => {
                l.id.script = Some(x);
                Ret::Unit
            }
            Err(_) => Ret::Err,
        },
        Op::SetRegion(None) => {
            l.id.region = None;
            Ret::Unit
        }
        Op::SetRegion(Some(a)) => match Region::from_bytes(a) {
            Ok(x) => {
                l.id.region = Some(x);
                Ret::Unit
            }
            Err(_) => Ret::Err,
        },
        Op::SetVariants(vs) => {
            let parsed: Result<Vec<Variant>, _> = vs.iter().map(|v| Variant::from_bytes(v)).collect();
            match parsed {
                Ok(p) => {
                    l.id.set_variants(&p);
                    Ret::Unit
                }
                Err(_) => Ret::Err,
            }
        }
        Op::ClearVariants => {
            l.id.clear_variants();
            Ret::Unit
        }
        Op::SetKeyword(k, vs) => unit(l.extensions.unicode.set_keyword(k.clone(), vs)),
        Op::RemoveKeyword(k) => boolr(l.extensions.unicode.remove_keyword(k)),
        Op::ClearKeywords => {
            l.extensions.unicode.clear_keywords();
            Ret::Unit
        }
        Op::SetAttribute(a) => unit(l.extensions.unicode.set_attribute(a)),
        Op::RemoveAttribute(a) => boolr(l.extensions.unicode.remove_attribute(a)),
        Op::ClearAttributes => {
            l.extensions.unicode.clear_attributes();
            Ret::Unit
        }
        Op::SetTlang(a) => match LanguageIdentifier::from_bytes(a) {
            Ok(li) => unit(l.extensions.transform.set_tlang(li)),
            Err(_) => Ret::Err,
        },
        Op::ClearTlang => {
            l.extensions.transform.clear_tlang();
            Ret::Unit
        }
        Op::SetTfield(k, vs) => unit(l.extensions.transform.set_tfield(k.clone(), vs)),
        Op::RemoveTfield(k) => boolr(l.extensions.transform.remove_tfield(k)),
        Op::ClearTfields => {
            l.extensions.transform.clear_tfields();
            Ret::Unit
        }
        Op::AddTag(t) => unit(l.extensions.private.add_tag(t)),
        Op::RemoveTag(t) => boolr(l.extensions.private.remove_tag(t)),
        Op::ClearTags => {
            l.extensions.private.clear_tags();
            Ret::Unit
        }
        #[cfg(feature = "likely")]
        Op::Maximize => Ret::Changed(l.id.maximize()),
        #[cfg(feature = "likely")]
        Op::Minimize => Ret::Changed(l.id.minimize()),
        #[cfg(not(feature = "likely"))]
        Op::Maximize | Op::Minimize => Ret::Changed(false),
        Op::QKeyword(k) => match l.extensions.unicode.keyword(k) {
            Ok(it) => Ret::List(it.map(String::from).collect()),
            Err(_) => Ret::Err,
        },
        Op::QHasAttribute(a) => boolr(l.extensions.unicode.has_attribute(a)),
        Op::QTfield(k) => match l.extensions.transform.tfield(k) {
            Ok(it) => Ret::List(it.map(String::from).collect()),
            Err(_) => Ret::Err,
        },
        Op::QHasTag(t) => boolr(l.extensions.private.has_tag(t)),
        Op::QHasVariant(v) => match Variant::from_bytes(v) {
            Ok(x) => Ret::Bool(l.id.has_variant(x)),
            Err(_) => Ret::Err,
        },
        Op::CloneOnto(x) => {
            let dirty = DIRTY[(*x as usize / 3) % DIRTY.len()];
            if let Ok(mut d) = dirty.parse::<Locale>() {
                match x % 3 {
                    0 => d.clone_from(l),
                    1 => {
                        d.id.clone_from(&l.id);
                        d.extensions.unicode.clone_from(&l.extensions.unicode);
                        d.extensions.transform.clone_from(&l.extensions.transform);
                        d.extensions.private.clone_from(&l.extensions.private);
                    }
                    _ => d = l.clone(),
                }
                *l = d;
            }
            Ret::Unit
        }
    }
}

/// Everything C10 asserts about the state after a step.
pub fn compare_state(l: &Locale, m: &Loc) -> Vec<Fail> {
    let mut out = vec![];
    let o = obs_loc(l);
    if o != *m {
        out.push(fail("getters-vs-model", format!("observed {:?}, model {:?}", o, m)));
    }
    let u = &l.extensions.unicode;
    let t = &l.extensions.transform;
    let p = &l.extensions.private;
    let eu = m.attrs.is_empty() && m.keywords.is_empty();
    let et = m.tlang.is_none() && m.tfields.is_empty();
    let ep = m.private.is_empty();
    if u.is_empty() != eu || t.is_empty() != et || p.is_empty() != ep || l.extensions.is_empty() != (eu && et && ep) {
        out.push(fail("is_empty", format!("unicode {} transform {} private {} all {} vs model {} {} {}", u.is_empty(), t.is_empty(), p.is_empty(), l.extensions.is_empty(), eu, et, ep)));
    }
    if l.id.language.is_empty() != (m.id.lang == "und") {
        out.push(fail("is_empty", "language.is_empty() disagrees with model".to_string()));
    }
    for f in crate::obs::order_facts(l) {
        out.push(fail("order", f));
    }
    // has_* on every member and on a non-member
    for a in &m.attrs {
        if u.has_attribute(a.as_str()).ok() != Some(true) {
            out.push(fail("has_attribute", format!("member {:?} not found", a)));
        }
    }
    for a in &m.private {
        if p.has_tag(a.as_str()).ok() != Some(true) {
            out.push(fail("has_tag", format!("member {:?} not found", a)));
        }
    }
    for v in &m.id.variants {
        if !v.parse().map_or(true, |vv| l.id.has_variant(vv)) {
            out.push(fail("has_variant", format!("member {:?} not found", v)));
        }
    }
    if u.has_attribute("qqqqq").ok() != Some(m.attrs.iter().any(|x| x == "qqqqq")) || p.has_tag("qqqqq").ok() != Some(m.private.iter().any(|x| x == "qqqqq")) {
        out.push(fail("has_*", "non-member reported present".to_string()));
    }
    if u.keyword_keys().len() != m.keywords.len() || t.tfield_keys().len() != m.tfields.len() || u.attributes().len() != m.attrs.len() || p.tags().len() != m.private.len() || l.id.variants().len() != m.id.variants.len() {
        out.push(fail("exact-size", "ExactSizeIterator::len() disagrees with the model".to_string()));
    }
    let s = match guard(|| l.to_string()) {
        Ok(s) => s,
        Err(pn) => {
            out.push(fail("panic", pn));
            return out;
        }
    };
    if s != m.canon() {
        out.push(fail("to_string-vs-model", format!("to_string() = {:?}, model canonical form {:?}", s, m.canon())));
    }
    crate::stream::hostile_neighbour(s.as_bytes());
    match guard(|| s.parse::<Locale>()) {
        Err(pn) => out.push(fail("panic", pn)),
        Ok(Err(e)) => out.push(fail("reparse", format!("{:?} does not parse back: {:?}", s, e))),
        Ok(Ok(l2)) => {
            if l2 != *l {
                out.push(fail("reparse", format!("{:?} parses back to a different value: {:?}", s, l2.to_string())));
            }
            if obs_loc(&l2) != *m {
                out.push(fail("reparse", format!("{:?} parses back to {:?}, model {:?}", s, obs_loc(&l2), m)));
            }
        }
    }
    // single representation: the same value rebuilt from its observed parts must be == and hash alike
    let vs: Vec<Variant> = l.id.variants().cloned().collect();
    let rebuilt = LanguageIdentifier::from_parts(l.id.language, l.id.script, l.id.region, &vs);
    if rebuilt != l.id {
        out.push(fail("representation", format!("from_parts(getters) != value: {:?} vs {:?}", rebuilt, l.id)));
    }
    // (an earlier clause also inspected the Debug text for `variants: Some([])`; that is an
    // implementation detail the properties do not state - the observable consequence, inequality
    // with the value rebuilt from its own parts, is what is checked above)
    out
}

/// One lock-step step. Returns the failures of this step.
pub fn step(l: &mut Locale, m: &mut Loc, op: &Op, likely: Option<&Likely>) -> (Ret, Vec<Fail>) {
    let mut out = vec![];
    let before = l.clone();
    let before_s = l.to_string();
    let r = match guard(|| apply_lib(l, op)) {
        Ok(r) => r,
        Err(p) => {
            out.push(fail("panic", format!("{} panicked: {}", op.kind(), p)));
            return (Ret::Err, out);
        }
    };
    match op {
        Op::Maximize | Op::Minimize => {
            let Ret::Changed(ch) = r else { unreachable!() };
            // only language/script/region may change; bool iff changed
            let after = obs_li(&l.id);
            let mut expect_rest = m.clone();
            expect_rest.id = after.clone();
            let changed = after != m.id;
            // maximize: true iff changed; minimize: a true result may re-state the same identifier,
            // but a false result must leave it unchanged
            let bool_ok = if matches!(op, Op::Maximize) { ch == changed } else { ch || !changed };
            if !bool_ok {
                out.push(fail("likely-bool", format!("{} returned {} but id {} -> {}", op.kind(), ch, m.id.canon(), after.canon())));
            }
            if after.variants != m.id.variants {
                out.push(fail("likely-touched-variants", format!("{} -> {}", m.id.canon(), after.canon())));
            }
            if let Some(lk) = likely {
                let ok = if matches!(op, Op::Maximize) { lk.maximize_acceptable(&m.id, &after) } else { lk.minimize_acceptable(&m.id, &after, &lib_maximize) };
                if let Err(why) = ok {
                    out.push(fail("likely-answer", format!("{}({}) = {}: {}", op.kind(), m.id.canon(), after.canon(), why)));
                }
            }
            *m = expect_rest;
        }
        _ => {
            let mr = apply_model(m, op);
            if mr != r {
                out.push(fail("return-value", format!("{} {} returned {:?}, model {:?}", op.kind(), op.to_json(), r, mr)));
            }
            if r == Ret::Err && (*l != before || l.to_string() != before_s) {
                out.push(fail("error-mutated", format!("{} {} returned an error but changed the value from {:?} to {:?}", op.kind(), op.to_json(), before_s, l.to_string())));
            }
        }
    }
    out.extend(compare_state(l, m));
    (r, out)
}

// ------------------------------------------------------------------ operation alphabet

fn b(s: &str) -> Vec<u8> {
    s.as_bytes().to_vec()
}
fn bs(v: &[&str]) -> Vec<Vec<u8>> {
    v.iter().map(|s| b(s)).collect()
}

/// The concrete operation alphabet for exhaustive short histories.
pub fn alphabet() -> Vec<Op> {
    let mut v = vec![
        Op::CloneOnto(0),
        Op::CloneOnto(4),
        Op::SetLanguage(b("DE")),
        Op::SetLanguage(b("und")),
        Op::SetLanguage(b("abcd")),
        Op::ClearLanguage,
        Op::SetScript(None),
        Op::SetScript(Some(b("cYRL"))),
        Op::SetScript(Some(b("la"))),
        Op::SetRegion(None),
        Op::SetRegion(Some(b("at"))),
        Op::SetRegion(Some(b("USA"))),
        Op::SetVariants(bs(&[])),
        Op::SetVariants(bs(&["macos"])),
        Op::SetVariants(bs(&["valencia", "1996", "VALENCIA"])),
        Op::SetVariants(bs(&["abcd"])),
        Op::ClearVariants,
        Op::SetKeyword(b("ca"), bs(&["buddhist"])),
        Op::SetKeyword(b("CA"), bs(&["true"])),
        Op::SetKeyword(b("nu"), bs(&["THAI", "abc"])),
        Op::SetKeyword(b("1a"), bs(&[])),
        Op::SetKeyword(b("a1"), bs(&["abc"])),
        Op::SetKeyword(b("ca"), bs(&["abc", "ab"])),
        Op::SetKeyword(b("hc"), bs(&["toolongvalue"])),
        Op::RemoveKeyword(b("ca")),
        Op::RemoveKeyword(b("NU")),
        Op::RemoveKeyword(b("c")),
        Op::ClearKeywords,
        Op::SetAttribute(b("foo")),
        Op::SetAttribute(b("BAR")),
        Op::SetAttribute(b("abc")),
        Op::SetAttribute(b("zzz")),
        Op::SetAttribute(b("ab")),
        Op::SetAttribute(b("f\u{f3}o")),
        Op::RemoveAttribute(b("foo")),
        Op::RemoveAttribute(b("Bar")),
        Op::RemoveAttribute(b("zzz")),
        Op::RemoveAttribute(b("toolongattr")),
        Op::ClearAttributes,
        Op::SetTlang(b("en-US")),
        Op::SetTlang(b("und")),
        Op::SetTlang(b("de_latn_AT_1996")),
        Op::ClearTlang,
        Op::SetTfield(b("k0"), bs(&["dvorak"])),
        Op::SetTfield(b("K0"), bs(&["true"])),
        Op::SetTfield(b("h0"), bs(&["HYBRID", "abc"])),
        Op::SetTfield(b("0k"), bs(&["abc"])),
        Op::SetTfield(b("m0"), bs(&["abc", "ab"])),
        Op::RemoveTfield(b("k0")),
        Op::RemoveTfield(b("H0")),
        Op::RemoveTfield(b("kk")),
        Op::ClearTfields,
        Op::AddTag(b("foo")),
        Op::AddTag(b("A")),
        Op::AddTag(b("u")),
        Op::AddTag(b("zz")),
        Op::AddTag(b("12345678")),
        Op::AddTag(b("123456789")),
        Op::AddTag(b("")),
        Op::RemoveTag(b("foo")),
        Op::RemoveTag(b("a")),
        Op::RemoveTag(b("ZZ")),
        Op::RemoveTag(b("b-c")),
        Op::ClearTags,
        Op::Maximize,
        Op::Minimize,
    ];
    v.shrink_to_fit();
    v
}

pub const START_VALUES: &[&str] = &[
    "und",
    "en",
    "en-US",
    "sr-Cyrl-RS",
    "ca-ES-valencia",
    "de-1996-macos",
    "en-u-ca-buddhist",
    "en-u-foo-bar",
    "en-u-zzz-abc-ca-true-nu-thai-abc",
    "en-t-en-US",
    "en-t-k0-dvorak",
    "en-t-de-latn-at-1996-h0-hybrid-k0-true",
    "en-x-foo",
    "en-x-zz-a-foo-a",
    "zh-Hant-TW-t-und-u-nu-thai-x-u",
    "en-t-k0-dvorak-u-ca-buddhist-x-foo",
    "und-Latn",
    "und-419",
    "abcdefgh-t-h0-abc-abc",
    "en-u-1a",
    "fa-IR-u-foo-ca-abc-x-12345678",
];

/// Random operation with arguments from valid, boundary and invalid pools.
pub fn random_op(r: &mut Rng) -> Op {
    use crate::gen::*;
    fn arg(r: &mut Rng, pool: &[&str], inval: &[&str]) -> Vec<u8> {
        // one draw in six comes from the real-world lexicon of the same kind (valid or not: the model judges)
        use crate::lexicon as lx;
        let real: &[&str] = if std::ptr::eq(pool.as_ptr(), LANGS.as_ptr()) {
            lx::LANGS
        } else if std::ptr::eq(pool.as_ptr(), SCRIPTS.as_ptr()) {
            lx::SCRIPTS
        } else if std::ptr::eq(pool.as_ptr(), REGIONS.as_ptr()) {
            lx::REGIONS
        } else if std::ptr::eq(pool.as_ptr(), VARIANTS.as_ptr()) {
            lx::VARIANTS
        } else if std::ptr::eq(pool.as_ptr(), UKEYS.as_ptr()) {
            lx::UKEYS
        } else if std::ptr::eq(pool.as_ptr(), TKEYS.as_ptr()) {
            lx::TKEYS
        } else if std::ptr::eq(pool.as_ptr(), TVALUES.as_ptr()) {
            lx::TVALUES
        } else if std::ptr::eq(pool.as_ptr(), UTYPES.as_ptr()) || std::ptr::eq(pool.as_ptr(), ATTRS.as_ptr()) {
            lx::UTYPES
        } else {
            pool
        };
        let mut s: Vec<u8> = if r.chance(1, 8) {
            r.pick(inval).as_bytes().to_vec()
        } else if r.chance(1, 6) {
            r.pick(real).as_bytes().to_vec()
        } else {
            r.pick(pool).as_bytes().to_vec()
        };
        // compound arguments: two draws (valid or not) joined by a separator. No single-subtag argument may contain a
        // separator, so all of these must be refused as a whole - an implementation that splits its argument and
        // applies the pieces one by one leaves a partial effect behind when a later piece is refused
        if r.chance(1, 12) {
            let second: &[u8] = if r.chance(1, 2) { r.pick(inval).as_bytes() } else { r.pick(pool).as_bytes() };
            s.push(if r.chance(1, 4) { b'_' } else { b'-' });
            s.extend_from_slice(second);
        }
        match r.below(6) {
            0 => s.make_ascii_uppercase(),
            1 => {
                for c in s.iter_mut() {
                    if r.chance(1, 2) {
                        *c = c.to_ascii_uppercase()
                    }
                }
            }
            _ => {}
        }
        s
    }
    fn vals(r: &mut Rng, pool: &[&str], inval: &[&str]) -> Vec<Vec<u8>> {
        let n = *r.pick(&[0usize, 1, 1, 1, 2, 3]);
        (0..n).map(|_| arg(r, pool, inval)).collect()
    }
    // invalid arguments, including strings that are well-formed members of ANOTHER class (a key-shaped value, a
    // singleton, a language-shaped tag): accepted by mistake they are re-read as that other class after to_string()
    const BADV: &[&str] = &["ab", "toolongvalue", "", "a-b", "f\u{f3}o", "a b", "abc\0", "a0", "z9", "k0", "1a", "u", "t", "x", "en", "ca", "12"];
    const BADK: &[&str] = &["c", "a1x", "", "\u{e9}a", "a-", "1-", "abc", "true", "0a0", "Latn", "u", "x", "00"];
    match r.below(35) {
        34 => Op::CloneOnto(r.below(12) as u8),
        0 => Op::SetLanguage(arg(r, LANGS, &["abcd", "a", "toolonglang", "e1", ""])),
        1 => Op::ClearLanguage,
        2 => Op::SetScript(if r.chance(1, 3) { None } else { Some(arg(r, SCRIPTS, &["la", "latin", "l4tn"])) }),
        3 => Op::SetRegion(if r.chance(1, 3) { None } else { Some(arg(r, REGIONS, &["usa", "u", "12", "1234"])) }),
        4 | 5 => {
            let n = *r.pick(&[0usize, 1, 2, 3, 4]);
            Op::SetVariants((0..n).map(|_| arg(r, VARIANTS, &["abcd", "abc", "toolongvariant", "12_45"])).collect())
        }
        6 => Op::ClearVariants,
        7 | 8 | 9 => {
            let k = if r.chance(1, 8) { arg(r, BADK, BADK) } else { arg(r, UKEYS, &["a1", "11"]) };
            Op::SetKeyword(k, vals(r, UTYPES, BADV))
        }
        10 => Op::RemoveKeyword(arg(r, UKEYS, BADK)),
        11 => Op::ClearKeywords,
        12 | 13 | 14 => Op::SetAttribute(arg(r, ATTRS, BADV)),
        15 | 16 => Op::RemoveAttribute(arg(r, ATTRS, BADV)),
        17 => Op::ClearAttributes,
        18 => {
            let sl = gen_sid(r, true);
            let mut t = vec![];
            sl.tokens(&mut t);
            Op::SetTlang(if r.chance(1, 10) { b("en-abcd-xx") } else { render_random(&t, r) })
        }
        19 => Op::ClearTlang,
        20 | 21 | 22 => {
            let k = if r.chance(1, 8) { arg(r, BADK, BADK) } else { arg(r, TKEYS, &["0k", "kk"]) };
            Op::SetTfield(k, vals(r, TVALUES, BADV))
        }
        23 => Op::RemoveTfield(arg(r, TKEYS, BADK)),
        24 => Op::ClearTfields,
        25 | 26 | 27 => Op::AddTag(arg(r, PRIVATE, &["123456789", "", "a-b", "\u{e9}"])),
        28 | 29 => Op::RemoveTag(arg(r, PRIVATE, &["123456789", ""])),
        30 => {
            if r.chance(1, 4) {
                Op::ClearTags
            } else if r.chance(1, 2) {
                Op::Maximize
            } else {
                Op::Minimize
            }
        }
        31 => Op::QKeyword(arg(r, UKEYS, BADK)),
        32 => {
            if r.chance(1, 2) {
                Op::QHasAttribute(arg(r, ATTRS, BADV))
            } else {
                Op::QHasTag(arg(r, PRIVATE, &["123456789", ""]))
            }
        }
        _ => {
            if r.chance(1, 2) {
                Op::QTfield(arg(r, TKEYS, BADK))
            } else {
                Op::QHasVariant(arg(r, VARIANTS, &["abcd", "abc"]))
            }
        }
    }
}

impl Op {
    /// every byte-string argument of the operation (keys and values)
    pub fn args(&self) -> Vec<Vec<u8>> {
        match self {
            Op::SetLanguage(a) | Op::RemoveKeyword(a) | Op::SetAttribute(a) | Op::RemoveAttribute(a) | Op::SetTlang(a)
            | Op::RemoveTfield(a) | Op::AddTag(a) | Op::RemoveTag(a) | Op::QKeyword(a) | Op::QHasAttribute(a)
            | Op::QTfield(a) | Op::QHasTag(a) | Op::QHasVariant(a) => vec![a.clone()],
            Op::SetScript(a) | Op::SetRegion(a) => a.iter().cloned().collect(),
            Op::SetVariants(v) => v.clone(),
            Op::SetKeyword(k, v) | Op::SetTfield(k, v) => {
                let mut o = vec![k.clone()];
                o.extend(v.iter().cloned());
                o
            }
            _ => vec![],
        }
    }
    /// the same operation with one argument replaced by `a` (the key or the first value for the two-level ones)
    pub fn with_arg(&self, a: Vec<u8>, second: bool) -> Op {
        match self {
            Op::SetLanguage(_) => Op::SetLanguage(a),
            Op::RemoveKeyword(_) => Op::RemoveKeyword(a),
            Op::SetAttribute(_) => Op::SetAttribute(a),
            Op::RemoveAttribute(_) => Op::RemoveAttribute(a),
            Op::SetTlang(_) => Op::SetTlang(a),
            Op::RemoveTfield(_) => Op::RemoveTfield(a),
            Op::AddTag(_) => Op::AddTag(a),
            Op::RemoveTag(_) => Op::RemoveTag(a),
            Op::QKeyword(_) => Op::QKeyword(a),
            Op::QHasAttribute(_) => Op::QHasAttribute(a),
            Op::QTfield(_) => Op::QTfield(a),
            Op::QHasTag(_) => Op::QHasTag(a),
            Op::QHasVariant(_) => Op::QHasVariant(a),
            Op::SetScript(_) => Op::SetScript(Some(a)),
            Op::SetRegion(_) => Op::SetRegion(Some(a)),
            Op::SetVariants(v) => {
                let mut v = v.clone();
                if v.is_empty() || second {
                    v.push(a);
                } else {
                    v[0] = a;
                }
                Op::SetVariants(v)
            }
            Op::SetKeyword(k, v) | Op::SetTfield(k, v) => {
                let (mut k, mut v) = (k.clone(), v.clone());
                if second {
                    if v.is_empty() {
                        v.push(a);
                    } else {
                        v[0] = a;
                    }
                } else {
                    k = a;
                }
                if matches!(self, Op::SetKeyword(..)) {
                    Op::SetKeyword(k, v)
                } else {
                    Op::SetTfield(k, v)
                }
            }
            other => other.clone(),
        }
    }
}

/// A random history whose operations share arguments: one operation in eight takes one of its arguments from an
/// earlier operation of the same history (of any kind). The text a value already holds in one container then arrives
/// as the argument of an operation on another container, or of the remover / query of the same one - independent pool
/// draws produce that only by accident.
pub fn random_history(r: &mut Rng, len: usize) -> Vec<Op> {
    let mut recent: Vec<Vec<u8>> = Vec::with_capacity(16);
    let mut out = Vec::with_capacity(len);
    for _ in 0..len {
        let mut op = random_op(r);
        if !recent.is_empty() && r.chance(1, 8) {
            let a = r.pick(&recent).clone();
            let second = r.chance(1, 2);
            op = op.with_arg(a, second);
        }
        for a in op.args() {
            if recent.len() < 16 {
                recent.push(a);
            } else {
                let i = r.below(16);
                recent[i] = a;
            }
        }
        out.push(op);
    }
    out
}

/// Run a whole history from a start string; returns the failures with the step index.
pub fn run_history(start: &str, ops: &[Op], likely: Option<&Likely>) -> Vec<(usize, Fail)> {
    let mut out = vec![];
    let mut l: Locale = match start.parse() {
        Ok(l) => l,
        Err(_) => return out,
    };
    let mut m = obs_loc(&l);
    for (i, op) in ops.iter().enumerate() {
        let (_, fails) = step(&mut l, &mut m, op, likely);
        if !fails.is_empty() {
            for f in fails {
                out.push((i, f));
            }
            return out;
        }
    }
    out
}

pub fn history_json(start: &str, ops: &[Op]) -> Value {
    json!({"start": start, "ops": ops.iter().map(|o| o.to_json()).collect::<Vec<_>>()})
}
pub fn history_from_json(v: &Value) -> Option<(String, Vec<Op>)> {
    let start = v.get("start")?.as_str()?.to_string();
    let ops = v.get("ops")?.as_array()?.iter().filter_map(Op::from_json).collect();
    Some((start, ops))
}

#[allow(dead_code)]
pub fn langid_of(l: &Locale) -> LangId {
    obs_li(&l.id)
}

impl Op {
    /// Encoding understood by /verif/cfgprobe: kind[:x<hex>[,x<hex>...]]
    pub fn to_probe(&self) -> String {
        fn xs(v: &[&[u8]]) -> String {
            v.iter().map(|b| format!("x{}", crate::mon::hex(b))).collect::<Vec<_>>().join(",")
        }
        let k = self.kind();
        match self {
            Op::SetLanguage(a) | Op::RemoveKeyword(a) | Op::SetAttribute(a) | Op::RemoveAttribute(a) | Op::SetTlang(a)
            | Op::RemoveTfield(a) | Op::AddTag(a) | Op::RemoveTag(a) | Op::QKeyword(a) | Op::QHasAttribute(a)
            | Op::QTfield(a) | Op::QHasTag(a) | Op::QHasVariant(a) => format!("{}:{}", k, xs(&[a])),
            Op::SetScript(Some(a)) | Op::SetRegion(Some(a)) => format!("{}:{}", k, xs(&[a])),
            Op::SetVariants(v) => {
                if v.is_empty() {
                    k.to_string()
                } else {
                    format!("{}:{}", k, xs(&v.iter().map(|b| b.as_slice()).collect::<Vec<_>>()))
                }
            }
            Op::SetKeyword(a, v) | Op::SetTfield(a, v) => {
                let mut all: Vec<&[u8]> = vec![a];
                all.extend(v.iter().map(|b| b.as_slice()));
                format!("{}:{}", k, xs(&all))
            }
            Op::CloneOnto(x) => format!("{}:{}", k, xs(&[&[*x][..]])),
            _ => k.to_string(),
        }
    }
}


/// The library's own maximisation of a triple given as text (None = unchanged or not expressible).
#[cfg(feature = "likely")]
fn lib_maximize(l: &str, s: Option<&str>, r: Option<&str>) -> Option<crate::likely::Triple> {
    let t = crate::engines::likelyeng::to_lib(l, s, r)?;
    guard(|| unic_langid_impl::likelysubtags::maximize(t.0, t.1, t.2)).ok()?.map(|x| crate::engines::likelyeng::from_lib(&x))
}
#[cfg(not(feature = "likely"))]
fn lib_maximize(_l: &str, _s: Option<&str>, _r: Option<&str>) -> Option<crate::likely::Triple> {
    None
}
