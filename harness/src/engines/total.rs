//! C01: every text-accepting entry point returns Ok or Err in bounded time: never a panic, an
//! abort, a stack overflow or a loop. Panics are observed here (catch_unwind + recording hook),
//! hangs by the CPU-time watchdog (mon.rs), aborts by the driver as the worker's exit status.

#[cfg(feature = "likely")]
use crate::engines::universe::{for_triples, Universe};
use crate::gen;
#[cfg(feature = "likely")]
use crate::likely::{DirData, Likely};
use crate::mon::{self, fail, guard, panic_site, Ctx, Fail, SigH};
use crate::refspec;
use crate::rng::{mix, Rng};
use crate::stream::{byte_stream, Src, StreamCfg};
use serde_json::json;
use std::convert::TryFrom;
use unic_langid_impl::subtags::{Language, Region, Script, Variant};
use unic_langid_impl::LanguageIdentifier;
use unic_locale_impl::{ExtensionType, ExtensionsMap, Locale};

pub const EPS: &[&str] = &[
    "LanguageIdentifier::from_bytes",         // 0
    "LanguageIdentifier::from_str",           // 1
    "unic_langid_impl::canonicalize",         // 2
    "parser::parse_language_identifier",      // 3
    "Language::from_bytes/from_str/try_from", // 4
    "Script::from_bytes/from_str",            // 5
    "Region::from_bytes/from_str",            // 6
    "Variant::from_bytes/from_str",           // 7
    "Locale::from_bytes",                     // 8
    "Locale::from_str",                       // 9
    "unic_locale_impl::canonicalize",         // 10
    "parser::parse_locale",                   // 11
    "ExtensionsMap::from_bytes/from_str",     // 12
    "unicode.keyword/set_keyword/remove_keyword (as key)",          // 13
    "unicode.set_keyword (as value)",                               // 14
    "unicode.has_attribute/set_attribute/remove_attribute",         // 15
    "transform.tfield/set_tfield/remove_tfield (as key)",           // 16
    "transform.set_tfield (as value)",                              // 17
    "private.has_tag/add_tag/remove_tag",                           // 18
    "serde_json::from_slice::<LanguageIdentifier> (raw and quoted)", // 19
    "parsed value: to_string/character_direction/maximize/minimize/matches", // 20
    "LanguageIdentifier::try_from_iter / parser::parse_language_identifier_from_iter (doc-hidden iterator entry points)", // 21
];
pub const PARSER_EPS: &[usize] = &[0, 8, 12];

const RECEIVERS: &[&str] = &["und", "en-u-foo-ca-buddhist-t-en-k0-dvorak-x-priv"];

/// Call entry point `ep` with `b`; Ok(true) = returned Ok, Ok(false) = returned Err.
pub fn call_ep(ep: usize, b: &[u8]) -> Result<bool, String> {
    let s = std::str::from_utf8(b).ok();
    match ep {
        0 => guard(|| match LanguageIdentifier::from_bytes(b) {
            Ok(_) => true,
            Err(e) => {
                // the error values themselves must print (Display/Debug are part of "returns Err")
                let _ = (e.to_string(), format!("{:?}", e));
                false
            }
        }),
        1 => guard(|| s.map_or(false, |s| s.parse::<LanguageIdentifier>().is_ok())),
        2 => guard(|| unic_langid_impl::canonicalize(b).is_ok()),
        3 => guard(|| unic_langid_impl::parser::parse_language_identifier(b).is_ok()),
        4 => guard(|| {
            let a = Language::from_bytes(b).is_ok();
            let c = s.map_or(false, |s| s.parse::<Language>().is_ok());
            let d = Language::try_from(Some(b)).is_ok();
            a | c | d
        }),
        5 => guard(|| Script::from_bytes(b).is_ok() | s.map_or(false, |s| s.parse::<Script>().is_ok())),
        6 => guard(|| Region::from_bytes(b).is_ok() | s.map_or(false, |s| s.parse::<Region>().is_ok())),
        7 => guard(|| Variant::from_bytes(b).is_ok() | s.map_or(false, |s| s.parse::<Variant>().is_ok())),
        8 => guard(|| match Locale::from_bytes(b) {
            Ok(_) => true,
            Err(e) => {
                let _ = (e.to_string(), format!("{:?}", e));
                false
            }
        }),
        9 => guard(|| s.map_or(false, |s| s.parse::<Locale>().is_ok())),
        10 => guard(|| unic_locale_impl::canonicalize(b).is_ok()),
        11 => guard(|| match unic_locale_impl::parser::parse_locale(b) {
            Ok(_) => true,
            Err(e) => {
                let _ = (e.to_string(), format!("{:?}", e));
                false
            }
        }),
        12 => guard(|| ExtensionsMap::from_bytes(b).is_ok() | s.map_or(false, |s| s.parse::<ExtensionsMap>().is_ok())),
        13..=18 => guard(|| {
            let mut any = false;
            for rc in RECEIVERS {
                let Ok(mut l) = rc.parse::<Locale>() else { continue };
                let u = &mut l.extensions.unicode;
                match ep {
                    13 => {
                        any |= u.keyword(b).map(|i| i.len()).is_ok();
                        any |= u.set_keyword(b, &[&b"abc"[..]]).is_ok();
                        any |= u.set_keyword(b, &[]).is_ok();
                        any |= u.remove_keyword(b).is_ok();
                    }
                    14 => {
                        any |= u.set_keyword(&b"ca"[..], &[b]).is_ok();
                        any |= u.set_keyword(&b"ca"[..], &[&b"abc"[..], b, b]).is_ok();
                    }
                    15 => {
                        any |= u.has_attribute(b).is_ok();
                        any |= u.set_attribute(b).is_ok();
                        any |= u.remove_attribute(b).is_ok();
                        any |= u.remove_attribute(b).is_ok();
                    }
                    16 => {
                        let t = &mut l.extensions.transform;
                        any |= t.tfield(b).map(|i| i.len()).is_ok();
                        any |= t.set_tfield(b, &[&b"abc"[..]]).is_ok();
                        any |= t.remove_tfield(b).is_ok();
                    }
                    17 => {
                        let t = &mut l.extensions.transform;
                        any |= t.set_tfield(&b"k0"[..], &[b]).is_ok();
                        any |= t.set_tfield(&b"k0"[..], &[&b"abc"[..], b]).is_ok();
                    }
                    _ => {
                        let p = &mut l.extensions.private;
                        any |= p.has_tag(b).is_ok();
                        any |= p.add_tag(b).is_ok();
                        any |= p.add_tag(b).is_ok();
                        any |= p.remove_tag(b).is_ok();
                    }
                }
                // the receiver must still serialise and re-parse (bounded time, no panic)
                let _ = l.to_string().parse::<Locale>();
            }
            any
        }),
        19 => guard(|| {
            let a = serde_json::from_slice::<LanguageIdentifier>(b).is_ok();
            let q = s.map_or(false, |s| {
                let js = serde_json::to_string(&serde_json::Value::String(s.to_string())).unwrap();
                serde_json::from_str::<LanguageIdentifier>(&js).is_ok()
            });
            a | q
        }),
        20 => guard(|| match Locale::from_bytes(b) {
            Err(_) => false,
            Ok(mut l) => {
                let _ = l.to_string();
                let _ = l.extensions.to_string();
                let _ = l.id.character_direction();
                let other = l.clone();
                let _ = l.matches(&other, true, false);
                #[cfg(feature = "likely")]
                {
                    let _ = l.id.maximize();
                    let _ = l.id.minimize();
                    if let Some(t) = l.extensions.transform.tlang() {
                        let mut t = t.clone();
                        let _ = t.maximize();
                        let _ = t.minimize();
                        let _ = t.character_direction();
                    }
                }
                let _ = format!("{:?}", l);
                true
            }
        }),
        21 => guard(|| {
            // the public (doc-hidden) iterator entry points, with the tokenisations a caller can hand them: the
            // library's own split, a split on '-' only (tokens may then contain '_'), the whole input as one
            // token, an empty iterator; with and without `allow_extension`
            let mut any = false;
            for allow in [false, true] {
                let mut it = b.split(|c| *c == b'-' || *c == b'_').peekable();
                any |= LanguageIdentifier::try_from_iter(&mut it, allow).is_ok();
                let _ = it.count();
                let mut it = b.split(|c| *c == b'-').peekable();
                any |= unic_langid_impl::parser::parse_language_identifier_from_iter(&mut it, allow).is_ok();
                let _ = it.count();
                let mut it = std::iter::once(b).peekable();
                any |= LanguageIdentifier::try_from_iter(&mut it, allow).is_ok();
                let mut it = std::iter::empty::<&[u8]>().peekable();
                any |= unic_langid_impl::parser::parse_language_identifier_from_iter(&mut it, allow).is_ok();
            }
            any
        }),
        _ => Ok(false),
    }
}

pub fn c01_check_ep(ep: usize, b: &[u8]) -> Vec<Fail> {
    match call_ep(ep, b) {
        Ok(_) => vec![],
        Err(p) => vec![fail(format!("panic@{}", panic_site(&p)), format!("{} panicked: {}", EPS.get(ep).unwrap_or(&"?"), p))],
    }
}

/// Replay/shrink form: first byte = entry point index, rest = input.
pub fn c01_replay(tagged: &[u8]) -> Vec<Fail> {
    if tagged.is_empty() {
        return vec![];
    }
    c01_check_ep(tagged[0] as usize, &tagged[1..])
}

struct Tally {
    ok: Vec<u64>,
    err: Vec<u64>,
}

fn drive(ctx: &mut Ctx, tally: &mut Tally, eps: &[usize], b: &[u8], tagged: &mut Vec<u8>) {
    let multi = refspec::n_subtags(b) >= 2;
    for &ep in eps {
        ctx.evals += 1;
        let res = call_ep(ep, b);
        if multi && b.len() > 8 && (ep * 7 + b.len()) % 5 == 0 && ctx.wants_sample(EPS[ep]) {
            ctx.sample(EPS[ep], || json!({"entry_point": EPS[ep], "input": String::from_utf8_lossy(&b[..b.len().min(80)]), "returned": match &res { Ok(true) => "Ok", Ok(false) => "Err", Err(_) => "PANIC" }}));
        }
        match res {
            Ok(true) => {
                tally.ok[ep] += 1;
                if multi {
                    ctx.sig(refspec::class_seq_hash(0x100 + ep as u64, b, 1));
                }
            }
            Ok(false) => {
                tally.err[ep] += 1;
                if multi {
                    ctx.sig(refspec::class_seq_hash(0x100 + ep as u64, b, 0));
                }
            }
            Err(_) => {
                tagged.clear();
                tagged.push(ep as u8);
                tagged.extend_from_slice(b);
                let t = tagged.clone();
                ctx.judge_bytes(&t, &mut |c| c01_replay(c));
            }
        }
    }
}

pub fn run_c01(ctx: &mut Ctx) {
    let quick = ctx.quick();
    let miri = cfg!(miri);
    let all: Vec<usize> = (0..EPS.len()).collect();
    let mut tally = Tally { ok: vec![0; EPS.len()], err: vec![0; EPS.len()] };
    let mut tagged = Vec::with_capacity(128);
    // (0) ExtensionType::from_byte, all 256 bytes
    if ctx.shard == 0 {
        for x in 0..=255u8 {
            ctx.evals += 1;
            ctx.count("ExtensionType::from_byte");
            if let Err(p) = guard(|| ExtensionType::from_byte(x).map(|t| t.to_string())) {
                ctx.viol_total += 1;
                ctx.add_violation(&format!("panic@{}", panic_site(&p)), json!({"entry": "ExtensionType::from_byte", "byte": x}), json!(null), p);
            }
        }
    }
    if miri {
        // small workload for the UB interpreter: G-wide <= 2 (sharded) + a few random cases, every entry point
        let cfg = StreamCfg { wide_len: 2, narrow_len: 0, langid_len: 0, n_struct: if quick { 32 } else { 400 }, n_mutate: if quick { 32 } else { 400 }, corpus: false };
        // the iterator entry points (eight parser calls per input) are interpreted on every fourth input only
        let without_iter: Vec<usize> = all.iter().copied().filter(|e| *e != 21).collect();
        // in the quick tier only every 4th G-wide case is interpreted
        let mut k = 0u64;
        byte_stream(ctx, &cfg, &mut |ctx, b, src| {
            k += 1;
            if quick && src == Src::Wide && k % 4 != 0 {
                return;
            }
            ctx.count(src.name());
            drive(ctx, &mut tally, if k % 4 == 0 { &all } else { &without_iter }, b, &mut tagged);
        });
    } else {
        // (1) every entry point: G-wide <= 3, langid alphabet <= 3, random / mutated / corpus
        let cfg_all = StreamCfg { wide_len: 3, narrow_len: if quick { 4 } else { 5 }, langid_len: 3, n_struct: if quick { 100_000 } else { 3_000_000 }, n_mutate: if quick { 100_000 } else { 3_000_000 }, corpus: true };
        byte_stream(ctx, &cfg_all, &mut |ctx, b, src| {
            ctx.count(src.name());
            drive(ctx, &mut tally, &all, b, &mut tagged);
        });
        // (2) the parsers and ExtensionsMap: the full standard stream
        let cfg_p = StreamCfg::standard(quick);
        byte_stream(ctx, &cfg_p, &mut |ctx, b, src| {
            ctx.count(src.name());
            drive(ctx, &mut tally, PARSER_EPS, b, &mut tagged);
        });
        // (3) long and pathological inputs (time and stack): each through every entry point
        if ctx.shard == 0 {
            let mut longs: Vec<Vec<u8>> = vec![];
            for unit in [&b"a"[..], b"en", b"u", b"t", b"x", b"abc", b"k0", b"abcde", b"1abc", b""] {
                for reps in [64usize, 4096, 200_000] {
                    let mut v = b"en".to_vec();
                    for _ in 0..reps {
                        v.push(b'-');
                        v.extend_from_slice(unit);
                    }
                    longs.push(v);
                }
            }
            for (pre, unit) in [(&b"en-u"[..], &b"-ca-abc"[..]), (b"en-t-en", b"-k0-abc"), (b"en-x", b"-a"), (b"en-u", b"-attr"), (b"en", b"-valencia")] {
                let mut v = pre.to_vec();
                for _ in 0..100_000 {
                    v.extend_from_slice(unit);
                }
                longs.push(v);
            }
            longs.push(vec![b'a'; 1_000_000]);
            longs.push(vec![b'-'; 1_000_000]);
            longs.push(vec![0xff; 100_000]);
            for v in &longs {
                ctx.count("long-inputs");
                for ep in &all {
                    // one watchdog case per entry point, with a 60x CPU budget: these inputs are there to
                    // expose stack overflows and panics; a correct super-linear algorithm must not be
                    // reported as a hang (that verdict is decided on inputs of <= 96 bytes)
                    mon::begin_case_scaled(&v[..v.len().min(64)], 60);
                    drive(ctx, &mut tally, &[*ep], v, &mut tagged);
                }
            }
            mon::idle();
        }
    }
    // (4) likely-subtags and direction queries over the triple universe
    #[cfg(feature = "likely")]
    if !miri {
        if let (Ok(lk), Ok(dd)) = (Likely::load(), DirData::load()) {
            let u = Universe::new(&lk, Some(&dd));
            ctx.extra.insert("universe".into(), json!({"triples": u.size()}));
            for_triples(ctx, &u, &lk, &mut |ctx, l, s, r| {
                ctx.evals += 1;
                ctx.count("triples: maximize+minimize+character_direction");
                let Some(t) = crate::engines::likelyeng::to_lib(l, s, r) else {
                    ctx.count("setup: CLDR subtag rejected by the library (triple skipped)");
                    return;
                };
                let res = guard(|| {
                    let a = unic_langid_impl::likelysubtags::maximize(t.0, t.1, t.2).is_some();
                    let b = unic_langid_impl::likelysubtags::minimize(t.0, t.1, t.2).is_some();
                    let li = LanguageIdentifier::from_parts(t.0, t.1, t.2, &[]);
                    let _ = li.character_direction();
                    (a, b)
                });
                match res {
                    Ok((a, b)) => {
                        if a || b {
                            ctx.sig(SigH::new(0x1f).b(l.as_bytes()).b(s.unwrap_or("").as_bytes()).b(r.unwrap_or("").as_bytes()).fin());
                        }
                    }
                    Err(p) => {
                        ctx.viol_total += 1;
                        ctx.add_violation(&format!("panic@{}", panic_site(&p)), json!({"language": l, "script": s, "region": r}), json!(null), p);
                    }
                }
            });
        } else {
            ctx.notes.push("HARNESS-ERROR cannot load CLDR data".into());
        }
    }
    mon::idle();
    let mut per_ep = serde_json::Map::new();
    for (i, name) in EPS.iter().enumerate() {
        per_ep.insert(name.to_string(), json!({"returned_ok": tally.ok[i], "returned_err": tally.err[i]}));
        ctx.extra.insert(format!("sum_ok:{}", name), json!(tally.ok[i]));
        ctx.extra.insert(format!("sum_err:{}", name), json!(tally.err[i]));
    }
    let _ = per_ep;
    let tot_ok: u64 = tally.ok.iter().sum();
    let tot_err: u64 = tally.err.iter().sum();
    ctx.count_n("calls:returned-ok", tot_ok);
    ctx.count_n("calls:returned-err", tot_err);
    if !miri {
        ctx.extra.insert("floors".into(), json!({"calls:returned-ok": 100000, "calls:returned-err": 1000000, "ExtensionType::from_byte": 256, "long-inputs": 30}));
    }
    let _ = (gen::WIDE.len(), Rng::new(mix(&[1])).next());
}
