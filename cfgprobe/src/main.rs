//! cfgprobe — executes a script of always-available API calls and prints one transcript line per
//! script line. Built once per feature configuration of the library (C20); uses no optional API.
//! Input (stdin), one command per line:
//!   P <hex>                      parse the bytes with every parser
//!   H <hex start> <op> <op> ...  apply operations; op = kind[:x<hex>[,x<hex>...]]
//!   M <hex a> <hex b>            compare / match two locales
//! Output: "<n>\t<results>\t<direction column>"
#[cfg(feature = "facade")]
use unic_langid as li;
#[cfg(not(feature = "facade"))]
use unic_langid_impl as li;
#[cfg(feature = "facade")]
use unic_locale as ul;
#[cfg(not(feature = "facade"))]
use unic_locale_impl as ul;

use li::subtags::{Language, Region, Script, Variant};
use li::LanguageIdentifier;
use std::collections::hash_map::DefaultHasher;
use std::hash::{Hash, Hasher};
use std::io::{BufRead, Write};
use ul::{ExtensionsMap, Locale};

fn unhex(s: &str) -> Vec<u8> {
    (0..s.len() / 2).map(|i| u8::from_str_radix(&s[2 * i..2 * i + 2], 16).unwrap_or(0)).collect()
}
fn h64<T: Hash>(t: &T) -> u64 {
    let mut h = DefaultHasher::new();
    t.hash(&mut h);
    h.finish()
}
fn dir_col(id: &LanguageIdentifier) -> String {
    format!("{:?};script={}", id.character_direction(), id.script.is_some() as u8)
}
fn args(spec: &str) -> Vec<Vec<u8>> {
    if spec.is_empty() {
        return vec![];
    }
    spec.split(',').map(|a| unhex(a.trim_start_matches('x'))).collect()
}

fn apply(l: &mut Locale, op: &str) -> String {
    let (kind, spec) = op.split_once(':').unwrap_or((op, ""));
    let a = args(spec);
    let a0 = || a.first().cloned().unwrap_or_default();
    let rest = || a.iter().skip(1).cloned().collect::<Vec<_>>();
    match kind {
        "set_language" => match {
            use std::convert::TryFrom;
            let a = a0();
            match (a.len() % 3, std::str::from_utf8(&a)) {
                (0, _) => Language::try_from(Some(a.as_slice())),
                (1, Ok(t)) => t.parse::<Language>(),
                _ => Language::from_bytes(&a),
            }
        } {
            Ok(x) => {
                l.id.language = x;
                "ok".into()
            }
            Err(e) => format!("{:?}", e),
        },
        "clear_language" => {
            l.id.language.clear();
            "ok".into()
        }
        "set_script" => {
            if a.is_empty() {
                l.id.script = None;
                "ok".into()
            } else {
                match Script::from_bytes(&a0()) {
                    Ok(x) => {
                        l.id.script = Some(x);
                        "ok".into()
                    }
                    Err(e) => format!("{:?}", e),
                }
            }
        }
        "set_region" => {
            if a.is_empty() {
                l.id.region = None;
                "ok".into()
            } else {
                match Region::from_bytes(&a0()) {
                    Ok(x) => {
                        l.id.region = Some(x);
                        "ok".into()
                    }
                    Err(e) => format!("{:?}", e),
                }
            }
        }
        "set_variants" => {
            let p: Result<Vec<Variant>, _> = a.iter().map(|v| Variant::from_bytes(v)).collect();
            match p {
                Ok(p) => {
                    l.id.set_variants(&p);
                    "ok".into()
                }
                Err(e) => format!("{:?}", e),
            }
        }
        "clear_variants" => {
            l.id.clear_variants();
            "ok".into()
        }
        "set_keyword" => format!("{:?}", l.extensions.unicode.set_keyword(a0(), &rest())),
        "remove_keyword" => format!("{:?}", l.extensions.unicode.remove_keyword(a0())),
        "clear_keywords" => {
            l.extensions.unicode.clear_keywords();
            "ok".into()
        }
        "set_attribute" => format!("{:?}", l.extensions.unicode.set_attribute(a0())),
        "remove_attribute" => format!("{:?}", l.extensions.unicode.remove_attribute(a0())),
        "clear_attributes" => {
            l.extensions.unicode.clear_attributes();
            "ok".into()
        }
        "set_tlang" => match LanguageIdentifier::from_bytes(&a0()) {
            Ok(t) => format!("{:?}", l.extensions.transform.set_tlang(t)),
            Err(e) => format!("{:?}", e),
        },
        "clear_tlang" => {
            l.extensions.transform.clear_tlang();
            "ok".into()
        }
        "set_tfield" => format!("{:?}", l.extensions.transform.set_tfield(a0(), &rest())),
        "remove_tfield" => format!("{:?}", l.extensions.transform.remove_tfield(a0())),
        "clear_tfields" => {
            l.extensions.transform.clear_tfields();
            "ok".into()
        }
        "add_tag" => format!("{:?}", l.extensions.private.add_tag(a0())),
        "remove_tag" => format!("{:?}", l.extensions.private.remove_tag(a0())),
        "clear_tags" => {
            l.extensions.private.clear_tags();
            "ok".into()
        }
        "keyword?" => format!("{:?}", l.extensions.unicode.keyword(a0()).map(|i| i.collect::<Vec<_>>())),
        "has_attribute?" => format!("{:?}", l.extensions.unicode.has_attribute(a0())),
        "tfield?" => format!("{:?}", l.extensions.transform.tfield(a0()).map(|i| i.collect::<Vec<_>>())),
        "has_tag?" => format!("{:?}", l.extensions.private.has_tag(a0())),
        "has_variant?" => format!("{:?}", Variant::from_bytes(&a0()).map(|v| l.id.has_variant(v))),
        "clone_onto" => {
            const DIRTY: &[&str] = &[
                "ca-Latn-ES-valencia-1996-u-attr-zzz-ca-gregory-nu-thai-t-de-1996-k0-dvorak-m0-names-x-priv-zz",
                "sr-Cyrl-RS-u-foo-t-en-h0-hybrid",
                "und-x-a-b-c",
                "abcdefgh-macos",
            ];
            let x = a0().first().copied().unwrap_or(0) as usize;
            match DIRTY[(x / 3) % DIRTY.len()].parse::<Locale>() {
                Ok(mut d) => {
                    match x % 3 {
                        0 => d.clone_from(l),
                        1 => {
                            d.id.clone_from(&l.id);
                            d.extensions.unicode.clone_from(&l.extensions.unicode);
                            d.extensions.transform.clone_from(&l.extensions.transform);
                            d.extensions.private.clone_from(&l.extensions.private);
                        }
                        _ => d = l.clone(),
                    }
                    *l = d;
                    "ok".into()
                }
                Err(e) => format!("{:?}", e),
            }
        }
        // optional-API operations are not part of the probe: skipped identically in every build
        _ => "skipped".into(),
    }
}

fn main() {
    let stdin = std::io::stdin();
    let out = std::io::stdout();
    let mut out = std::io::BufWriter::new(out.lock());
    for (n, line) in stdin.lock().lines().enumerate() {
        let line = line.unwrap();
        let mut it = line.split(' ');
        let cmd = it.next().unwrap_or("");
        let (res, dir, nontrivial) = match cmd {
            "P" => {
                let b = unhex(it.next().unwrap_or(""));
                let loc = Locale::from_bytes(&b);
                let lid = LanguageIdentifier::from_bytes(&b);
                let mut r = String::new();
                r.push_str(&match &loc {
                    Ok(l) => format!("L=Ok({})#{:x};dbg={:?}", l, h64(l), l),
                    Err(e) => format!("L={:?}/{}", e, e),
                });
                r.push_str(&match &lid {
                    Ok(l) => format!("|I=Ok({})#{:x};{:?}", l, h64(l), l.clone().into_parts()),
                    Err(e) => format!("|I={:?}/{}", e, e),
                });
                r.push_str(&format!("|CL={:?}|CI={:?}", ul::canonicalize(&b), li::canonicalize(&b)));
                r.push_str(&format!("|E={:?}", ExtensionsMap::from_bytes(&b).map(|e| e.to_string())));
                r.push_str(&format!(
                    "|S={:?},{:?},{:?},{:?}",
                    Language::from_bytes(&b).map(|x| (x.to_string(), Option::<u64>::from(x))),
                    Script::from_bytes(&b).map(|x| (x.to_string(), u32::from(x))),
                    Region::from_bytes(&b).map(|x| (x.to_string(), u32::from(x))),
                    Variant::from_bytes(&b).map(|x| (x.to_string(), u64::from(x)))
                ));
                if let Ok(s) = std::str::from_utf8(&b) {
                    r.push_str(&format!("|FS={:?},{:?}", s.parse::<Locale>().map(|l| l.to_string()), s.parse::<LanguageIdentifier>().map(|l| l.to_string())));
                }
                let d = match (&loc, &lid) {
                    (Ok(l), _) => dir_col(&l.id),
                    (_, Ok(l)) => dir_col(l),
                    _ => "-".into(),
                };
                let nt = !matches!(&loc, Err(e) if format!("{:?}", e).contains("InvalidLanguage"));
                (r, d, nt)
            }
            "H" => {
                let start = unhex(it.next().unwrap_or(""));
                match Locale::from_bytes(&start) {
                    Err(e) => (format!("start={:?}", e), "-".into(), false),
                    Ok(mut l) => {
                        let mut r = String::new();
                        for op in it {
                            let x = apply(&mut l, op);
                            r.push_str(&format!("{}=>{}=>{}#{:x};", op.split(':').next().unwrap_or(""), x, l, h64(&l)));
                        }
                        r.push_str(&format!("final={:?};reparse={:?}", l, l.to_string().parse::<Locale>().map(|x| x == l)));
                        let d = dir_col(&l.id);
                        (r, d, true)
                    }
                }
            }
            "M" => {
                let a = Locale::from_bytes(&unhex(it.next().unwrap_or("")));
                let b = Locale::from_bytes(&unhex(it.next().unwrap_or("")));
                match (a, b) {
                    (Ok(a), Ok(b)) => {
                        let mut r = format!("eq={};ideq={};cmp={:?};idcmp={:?};", a == b, a.id == b.id, a.cmp(&b), a.id.cmp(&b.id));
                        for ra in [false, true] {
                            for rb in [false, true] {
                                r.push_str(&format!("m{}{}={},{},{};", ra as u8, rb as u8, a.matches(&b, ra, rb), a.id.matches(&b.id, ra, rb), a.id.matches(&b, ra, rb)));
                            }
                        }
                        r.push_str(&format!("streq={},{}", a.id == b.id.to_string().as_str(), a.id.language == b.id.language.as_str()));
                        // comparisons with strings that extend, truncate or re-case the canonical text, and the other operand's subtags
                        let sa = a.id.to_string();
                        let last_b = b.id.variants().last().map(|v| v.as_str().to_string()).unwrap_or_else(|| "nedis".into());
                        r.push_str(&format!(
                            ";streq2={},{},{},{},{},{}",
                            a.id == sa.as_str(),
                            a.id == format!("{}-{}", sa, last_b).as_str(),
                            a.id == format!("{}-nedis-valencia", sa).as_str(),
                            a.id == sa.to_ascii_uppercase().as_str(),
                            a.id == &sa[..sa.len() - 1],
                            a.id == b.to_string().as_str()
                        ));
                        r.push_str(&format!(
                            ";subeq={:?},{:?},{}",
                            a.id.script.map(|x| (b.id.script.map(|y| x == y.as_str()), x == format!("{}x", x.as_str()).as_str())),
                            a.id.region.map(|x| (b.id.region.map(|y| x == y.as_str()), x == format!("{}1", x.as_str()).as_str())),
                            a.id.variants().zip(b.id.variants()).map(|(x, y)| (x == y.as_str()) as u8).sum::<u8>()
                        ));
                        r.push_str(&format!(";pcmp={:?};h={:x},{:x}", a.partial_cmp(&b), h64(&a.id), h64(&a.extensions)));
                        (r, format!("{}|{}", dir_col(&a.id), dir_col(&b.id)), true)
                    }
                    _ => ("unparsable".into(), "-".into(), false),
                }
            }
            _ => ("?".into(), "-".into(), false),
        };
        writeln!(out, "{}\t{}\t{}\t{}", n, nontrivial as u8, res, dir).unwrap();
    }
}
