//! The (language x script x region) universe shared by C06/C07/C08/C14.

use crate::likely::{DirData, Likely};
use crate::mon::Ctx;
use crate::refspec;
use crate::rng::{mix, Rng};

/// The (language x script x region) universe: every subtag in the CLDR data, unknown
/// representatives, and "absent" in each position.
pub struct Universe {
    pub langs: Vec<String>,
    pub scripts: Vec<Option<String>>,
    pub regions: Vec<Option<String>>,
}
impl Universe {
    pub fn new(lk: &Likely, dd: Option<&DirData>) -> Universe {
        let (mut ls, mut ss, mut rs) = lk.universe();
        if let Some(dd) = dd {
            for name in dd.locales.keys() {
                let p: Vec<&str> = name.split('-').collect();
                ls.push(p[0].to_ascii_lowercase());
                for x in &p[1..] {
                    if refspec::is_script(x.as_bytes()) {
                        ss.push(refspec::title(x.as_bytes()));
                    } else if refspec::is_region(x.as_bytes()) {
                        rs.push(refspec::upper(x.as_bytes()));
                    }
                }
            }
        }
        for x in ["xx", "qqq", "abcde", "und", "zzzzzzzz"] {
            ls.push(x.to_string());
        }
        // near neighbours of known languages: a known code extended to a 5-8 letter language subtag, a
        // 3-letter code cut to 2 letters, a 2-letter code extended to 3 (a lookup that keys on a prefix, a
        // truncated or a packed form of the subtag answers these with the neighbour's row)
        let known: Vec<String> = {
            let mut k = ls.clone();
            k.sort();
            k.dedup();
            k
        };
        for (i, l) in known.iter().enumerate() {
            if !refspec::is_lang(l.as_bytes()) || l == "und" {
                continue;
            }
            match i % 8 {
                0 => ls.push(format!("{}{}", l, &"xyzxyz"[..5 - l.len()])),
                1 => ls.push(format!("{}{}", l, &"abcdefgh"[..8 - l.len()])),
                2 if l.len() == 3 => ls.push(l[..2].to_string()),
                3 if l.len() == 2 => ls.push(format!("{}q", l)),
                4 => ls.push(format!("{}{}", l, &"ino"[..3].repeat(2)[..6 - l.len()])),
                _ => {}
            }
        }
        // the real-world lexicon: deprecated / macro / special codes, private-use and exceptional regions and scripts
        for x in crate::lexicon::LANGS {
            if refspec::is_lang(x.as_bytes()) {
                ls.push(x.to_string());
            }
        }
        for x in crate::lexicon::SCRIPTS {
            if refspec::is_script(x.as_bytes()) {
                ss.push(x.to_string());
            }
        }
        for x in crate::lexicon::REGIONS {
            if refspec::is_region(x.as_bytes()) {
                rs.push(x.to_string());
            }
        }
        for x in ["Xxxx", "Zzzz", "Aaaa"] {
            ss.push(x.to_string());
        }
        for x in ["XX", "ZZ", "999", "000"] {
            rs.push(x.to_string());
        }
        ls.sort();
        ls.dedup();
        ss.sort();
        ss.dedup();
        rs.sort();
        rs.dedup();
        let mut scripts: Vec<Option<String>> = vec![None];
        scripts.extend(ss.into_iter().map(Some));
        let mut regions: Vec<Option<String>> = vec![None];
        regions.extend(rs.into_iter().map(Some));
        Universe { langs: ls, scripts, regions }
    }
    pub fn size(&self) -> u64 {
        self.langs.len() as u64 * self.scripts.len() as u64 * self.regions.len() as u64
    }
}

/// Iterate this shard's share of the universe. Quick: for every language all (script, region)
/// pairs that occur with that language or with `und` in CLDR + a 1/`stride` sample of the rest.
pub fn for_triples(ctx: &mut Ctx, u: &Universe, lk: &Likely, f0: &mut dyn FnMut(&mut Ctx, &str, Option<&str>, Option<&str>)) {
    // every triple is a monitored case of its own: the CPU-time watchdog is armed with the triple as the
    // witness, so a query that never returns ends this worker after 20 CPU-seconds (C01: violation; the
    // other properties: inconclusive) instead of spinning until the wall-clock limit
    let mut desc: Vec<u8> = Vec::with_capacity(32);
    let mut wrapped = |ctx: &mut Ctx, l: &str, s: Option<&str>, r: Option<&str>| {
        desc.clear();
        desc.extend_from_slice(l.as_bytes());
        for x in [s, r].into_iter().flatten() {
            desc.push(b'-');
            desc.extend_from_slice(x.as_bytes());
        }
        crate::mon::begin_case(&desc);
        f0(ctx, l, s, r);
    };
    let f: &mut dyn FnMut(&mut Ctx, &str, Option<&str>, Option<&str>) = &mut wrapped;
    let quick = ctx.quick();
    let (shard, n) = (ctx.shard, ctx.nshards);
    let mut related: std::collections::HashMap<&str, Vec<(Option<&str>, Option<&str>)>> = std::collections::HashMap::new();
    for ((l, r), _) in lk.lr.iter() {
        related.entry(l.as_str()).or_default().push((None, Some(r.as_str())));
    }
    for ((l, s), _) in lk.ls.iter() {
        related.entry(l.as_str()).or_default().push((Some(s.as_str()), None));
    }
    let und_pairs: Vec<(Option<&str>, Option<&str>)> = {
        let mut v: Vec<(Option<&str>, Option<&str>)> = vec![(None, None)];
        v.extend(lk.sr.keys().map(|(s, r)| (Some(s.as_str()), Some(r.as_str()))));
        v.extend(lk.s.keys().map(|s| (Some(s.as_str()), None)));
        v.extend(lk.r.keys().map(|r| (None, Some(r.as_str()))));
        v
    };
    let mut r = Rng::new(mix(&[ctx.seed, shard as u64, 0x7219]));
    for (li, l) in u.langs.iter().enumerate() {
        if li % n != shard {
            continue;
        }
        if quick {
            for (s, rg) in und_pairs.iter() {
                f(ctx, l, *s, *rg);
            }
            if let Some(v) = related.get(l.as_str()) {
                for (s, rg) in v {
                    f(ctx, l, *s, *rg);
                    // and the full triple / neighbours
                    f(ctx, l, *s, Some("XX"));
                    f(ctx, l, Some("Xxxx"), *rg);
                }
            }
            // stratified sample of the rest: 1/64 of the (script, region) grid, offset by seed
            let total = u.scripts.len() * u.regions.len();
            let mut i = r.below(64);
            while i < total {
                let s = u.scripts[i / u.regions.len()].as_deref();
                let rg = u.regions[i % u.regions.len()].as_deref();
                f(ctx, l, s, rg);
                i += 64;
            }
        } else {
            for s in &u.scripts {
                for rg in &u.regions {
                    f(ctx, l, s.as_deref(), rg.as_deref());
                }
            }
        }
        // History phase (both tiers): the queries are pure functions of the triple, so the answer
        // must not depend on what was asked before. The related triples of this language (bare,
        // every CLDR script/region of it, their cross products, unknown neighbours, and the same
        // with `und`) are re-asked in several random orders, so that most ordered pairs
        // (query A directly followed by query B) of related queries occur; each call is judged
        // by the caller's oracle as usual. This is what exposes a memo / cache keyed on too little.
        let mut seq: Vec<(bool, Option<&str>, Option<&str>)> = vec![(false, None, None), (true, None, None)];
        if let Some(v) = related.get(l.as_str()) {
            let scripts: Vec<Option<&str>> = v.iter().filter_map(|(s, _)| s.map(Some)).collect();
            let regions: Vec<Option<&str>> = v.iter().filter_map(|(_, r)| r.map(Some)).collect();
            for (s, rg) in v {
                seq.push((false, *s, *rg));
                seq.push((true, *s, *rg));
            }
            for s in scripts.iter().take(4) {
                for rg in regions.iter().take(6) {
                    seq.push((false, *s, *rg));
                }
            }
            seq.push((false, Some("Xxxx"), None));
            seq.push((false, None, Some("XX")));
        } else if l == "und" {
            for (s, rg) in und_pairs.iter() {
                seq.push((true, *s, *rg));
            }
        } else {
            seq.push((false, Some("Latn"), None));
            seq.push((false, None, Some("US")));
            seq.push((false, Some("Arab"), Some("PK")));
        }
        let passes = if quick { 4 } else { 12 };
        for _ in 0..passes {
            r.shuffle(&mut seq);
            for (und, s, rg) in seq.iter() {
                f(ctx, if *und { "und" } else { l.as_str() }, *s, *rg);
            }
        }
        ctx.count_n("history-phase: related queries re-asked in random order", (passes * seq.len()) as u64);
    }
    // Exhaustive single-subtag spaces (both tiers): every well-formed script (26^4), every well-formed region
    // (26^2 + 10^3) and every 2-3 letter language (26^2 + 26^3), each in a few fixed contexts. A lookup that
    // hashes, packs or truncates a subtag answers some *unlisted* neighbour with a listed row's data; the CLDR
    // vocabulary alone (a few hundred subtags) cannot show that.
    let mut k = 0usize;
    let mut sbuf = String::with_capacity(4);
    let (mut ns, mut nr, mut nl) = (0u64, 0u64, 0u64);
    for a in b'A'..=b'Z' {
        for b in b'a'..=b'z' {
            for c in b'a'..=b'z' {
                for d in b'a'..=b'z' {
                    k += 1;
                    if k % n != shard {
                        continue;
                    }
                    sbuf.clear();
                    sbuf.push(a as char);
                    sbuf.push(b as char);
                    sbuf.push(c as char);
                    sbuf.push(d as char);
                    for l in ["und", "en", "ar", "zh", "abcde"] {
                        f(ctx, l, Some(&sbuf), None);
                    }
                    f(ctx, "und", Some(&sbuf), Some("US"));
                    ns += 1;
                }
            }
        }
    }
    let mut regions: Vec<String> = vec![];
    for a in b'A'..=b'Z' {
        for b in b'A'..=b'Z' {
            regions.push(format!("{}{}", a as char, b as char));
        }
    }
    for x in 0..1000 {
        regions.push(format!("{:03}", x));
    }
    for (i, rg) in regions.iter().enumerate() {
        if i % n != shard {
            continue;
        }
        for l in ["und", "en", "zh", "sr", "abcde"] {
            f(ctx, l, None, Some(rg));
            f(ctx, l, Some("Latn"), Some(rg));
        }
        f(ctx, "und", Some("Cyrl"), Some(rg));
        f(ctx, "und", Some("Xxxx"), Some(rg));
        nr += 1;
    }
    let mut lbuf = String::with_capacity(3);
    let mut li = 0usize;
    for len in [2usize, 3] {
        let total = 26usize.pow(len as u32);
        for x in 0..total {
            li += 1;
            if li % n != shard {
                continue;
            }
            lbuf.clear();
            let mut y = x;
            for _ in 0..len {
                lbuf.push((b'a' + (y % 26) as u8) as char);
                y /= 26;
            }
            if lbuf == "und" {
                continue;
            }
            f(ctx, &lbuf, None, None);
            f(ctx, &lbuf, Some("Latn"), None);
            f(ctx, &lbuf, None, Some("US"));
            f(ctx, &lbuf, Some("Arab"), Some("PK"));
            nl += 1;
        }
    }
    ctx.count_n("exhaustive-space: every 4-letter script (26^4 over all shards) in 6 contexts", ns);
    ctx.count_n("exhaustive-space: every 2-letter / 3-digit region (1676 over all shards) in 12 contexts", nr);
    ctx.count_n("exhaustive-space: every 2-3 letter language (18252 over all shards) in 4 contexts", nl);
}

