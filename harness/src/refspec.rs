//! Independent recogniser / canonicaliser written from the UTS #35 EBNF and the property
//! statements. Shares no code with /repo.

use std::collections::BTreeMap;

#[derive(Debug, Clone, PartialEq, Eq, Default, PartialOrd, Ord, Hash)]
pub struct LangId {
    /// lower case, "und" for the undetermined language
    pub lang: String,
    pub script: Option<String>,
    pub region: Option<String>,
    /// sorted, unique
    pub variants: Vec<String>,
}

#[derive(Debug, Clone, PartialEq, Eq, Default)]
pub struct Loc {
    pub id: LangId,
    pub attrs: Vec<String>,
    pub keywords: BTreeMap<String, Vec<String>>,
    pub tlang: Option<LangId>,
    pub tfields: BTreeMap<String, Vec<String>>,
    /// sorted (multiset)
    pub private: Vec<String>,
}

#[derive(Debug, Clone, PartialEq, Eq)]
pub enum Zone {
    MustAccept(Loc),
    MustReject(&'static str),
    /// Err, or Ok equal to the given value
    Either(Loc, &'static str),
    /// Err or any Ok (well-formed "other" extension)
    EitherAny(&'static str),
    /// duplicate keyword / tfield keys: outside C03
    Outside(&'static str),
}

impl Zone {
    pub fn name(&self) -> &'static str {
        match self {
            Zone::MustAccept(_) => "must_accept",
            Zone::MustReject(_) => "must_reject",
            Zone::Either(..) => "either",
            Zone::EitherAny(_) => "either_any",
            Zone::Outside(_) => "outside",
        }
    }
    pub fn reason(&self) -> &'static str {
        match self {
            Zone::MustAccept(_) => "",
            Zone::MustReject(r) | Zone::Either(_, r) | Zone::EitherAny(r) | Zone::Outside(r) => r,
        }
    }
}

// ------------------------------------------------------------------ R-subtag

pub fn alpha(b: &[u8]) -> bool {
    !b.is_empty() && b.iter().all(|c| c.is_ascii_alphabetic())
}
pub fn digit(b: &[u8]) -> bool {
    !b.is_empty() && b.iter().all(|c| c.is_ascii_digit())
}
pub fn alnum(b: &[u8]) -> bool {
    !b.is_empty() && b.iter().all(|c| c.is_ascii_alphanumeric())
}
pub fn is_lang(b: &[u8]) -> bool {
    alpha(b) && matches!(b.len(), 2 | 3 | 5..=8)
}
pub fn is_script(b: &[u8]) -> bool {
    alpha(b) && b.len() == 4
}
pub fn is_region(b: &[u8]) -> bool {
    (alpha(b) && b.len() == 2) || (digit(b) && b.len() == 3)
}
pub fn is_variant(b: &[u8]) -> bool {
    (alnum(b) && (5..=8).contains(&b.len()))
        || (b.len() == 4 && b[0].is_ascii_digit() && alnum(&b[1..]))
}
pub fn is_ukey(b: &[u8]) -> bool {
    b.len() == 2 && b[0].is_ascii_alphanumeric() && b[1].is_ascii_alphabetic()
}
pub fn is_utype(b: &[u8]) -> bool {
    alnum(b) && (3..=8).contains(&b.len())
}
pub fn is_attr(b: &[u8]) -> bool {
    alnum(b) && (3..=8).contains(&b.len())
}
pub fn is_tkey(b: &[u8]) -> bool {
    b.len() == 2 && b[0].is_ascii_alphabetic() && b[1].is_ascii_digit()
}
pub fn is_tvalue(b: &[u8]) -> bool {
    alnum(b) && (3..=8).contains(&b.len())
}
pub fn is_private(b: &[u8]) -> bool {
    alnum(b) && (1..=8).contains(&b.len())
}

pub fn lower(b: &[u8]) -> String {
    String::from_utf8(b.to_ascii_lowercase()).unwrap()
}
pub fn upper(b: &[u8]) -> String {
    String::from_utf8(b.to_ascii_uppercase()).unwrap()
}
pub fn title(b: &[u8]) -> String {
    let mut v = b.to_ascii_lowercase();
    if !v.is_empty() {
        v[0] = v[0].to_ascii_uppercase();
    }
    String::from_utf8(v).unwrap()
}

#[derive(Clone, Copy, PartialEq, Eq, Debug)]
pub enum SubtagKind {
    Language,
    Script,
    Region,
    Variant,
}
/// Expected normalised text for a subtag of the given kind, or None if the bytes are not in
/// the production.
pub fn subtag_expect(kind: SubtagKind, b: &[u8]) -> Option<String> {
    match kind {
        SubtagKind::Language => is_lang(b).then(|| lower(b)),
        SubtagKind::Script => is_script(b).then(|| title(b)),
        SubtagKind::Region => is_region(b).then(|| upper(b)),
        SubtagKind::Variant => is_variant(b).then(|| lower(b)),
    }
}

pub fn split(input: &[u8]) -> Vec<&[u8]> {
    input.split(|c| *c == b'-' || *c == b'_').collect()
}

// ------------------------------------------------------------------ R-langid

/// Greedy positional parse of a language id starting at st[0]; returns (id, consumed) or
/// None if st[0] is not a language subtag.
pub fn langid_prefix(st: &[&[u8]]) -> Option<(LangId, usize)> {
    if st.is_empty() || !is_lang(st[0]) {
        return None;
    }
    let mut id = LangId {
        lang: lower(st[0]),
        ..Default::default()
    };
    let mut i = 1;
    if i < st.len() && is_script(st[i]) {
        id.script = Some(title(st[i]));
        i += 1;
    }
    if i < st.len() && is_region(st[i]) {
        id.region = Some(upper(st[i]));
        i += 1;
    }
    while i < st.len() && is_variant(st[i]) {
        id.variants.push(lower(st[i]));
        i += 1;
    }
    id.variants.sort();
    id.variants.dedup();
    Some((id, i))
}

#[derive(Debug, PartialEq, Eq)]
pub enum LiVerdict {
    Accept(LangId),
    RejectLanguage,
    RejectSubtag,
}
impl LiVerdict {
    pub fn name(&self) -> &'static str {
        match self {
            LiVerdict::Accept(_) => "accept",
            LiVerdict::RejectLanguage => "reject_language",
            LiVerdict::RejectSubtag => "reject_subtag",
        }
    }
}

pub fn classify_langid(input: &[u8]) -> LiVerdict {
    let st = split(input);
    match langid_prefix(&st) {
        None => LiVerdict::RejectLanguage,
        Some((id, n)) if n == st.len() => LiVerdict::Accept(id),
        Some(_) => LiVerdict::RejectSubtag,
    }
}

impl LangId {
    pub fn canon(&self) -> String {
        let mut s = self.lang.clone();
        if let Some(x) = &self.script {
            s.push('-');
            s.push_str(x);
        }
        if let Some(x) = &self.region {
            s.push('-');
            s.push_str(x);
        }
        for v in &self.variants {
            s.push('-');
            s.push_str(v);
        }
        s
    }
}

impl Loc {
    pub fn ext_canon(&self) -> String {
        let mut s = String::new();
        if self.tlang.is_some() || !self.tfields.is_empty() {
            s.push_str("-t");
            if let Some(t) = &self.tlang {
                s.push('-');
                s.push_str(&t.canon());
            }
            for (k, v) in &self.tfields {
                s.push('-');
                s.push_str(k);
                for x in v {
                    s.push('-');
                    s.push_str(x);
                }
            }
        }
        if !self.attrs.is_empty() || !self.keywords.is_empty() {
            s.push_str("-u");
            for a in &self.attrs {
                s.push('-');
                s.push_str(a);
            }
            for (k, v) in &self.keywords {
                s.push('-');
                s.push_str(k);
                for x in v {
                    s.push('-');
                    s.push_str(x);
                }
            }
        }
        if !self.private.is_empty() {
            s.push_str("-x");
            for p in &self.private {
                s.push('-');
                s.push_str(p);
            }
        }
        s
    }
    pub fn canon(&self) -> String {
        let mut s = self.id.canon();
        s.push_str(&self.ext_canon());
        s
    }
    pub fn has_ext(&self) -> bool {
        !self.attrs.is_empty()
            || !self.keywords.is_empty()
            || self.tlang.is_some()
            || !self.tfields.is_empty()
            || !self.private.is_empty()
    }
}

// ------------------------------------------------------------------ R-locale (three zones)

pub const R_TFIELD_NOVALUE: &str = "tfield without value";

/// Strict recogniser of the canonical output form (C04): true iff `s` is built only from
/// ASCII alphanumerics and '-', has no empty subtag, and is a well-formed locale id with at
/// most one -t-, at most one -u-, a trailing -x-, no duplicate keys. A tfield key without a
/// value is tolerated (it is what dropping a sole `true` value leaves behind, see DESIGN C03(d)).
pub fn strict_wellformed(s: &[u8]) -> bool {
    if !s.iter().all(|c| c.is_ascii_alphanumeric() || *c == b'-') {
        return false;
    }
    if split(s).iter().any(|t| t.is_empty()) {
        return false;
    }
    match classify_locale_full(s) {
        (Zone::MustAccept(_), _) => true,
        (Zone::Either(..), reasons) => reasons.iter().all(|r| *r == R_TFIELD_NOVALUE),
        _ => false,
    }
}

/// Serialised form with every well-formed *other* extension (a singleton that is not t / u / x, in front of
/// the private-use part, followed by one or more 2-8 character lower-case alphanumeric subtags) removed.
/// C03 allows a library to support such extensions and C04 fixes only the relative order of t, u and x, so
/// the output checks are applied to the remainder. Returns None when an other-singleton is present but its
/// segment is not of that shape (repeated singleton, empty body, bad subtag, upper case).
pub fn strip_other_extensions(s: &str) -> Option<(String, usize)> {
    let toks: Vec<&str> = s.split('-').collect();
    let mut keep: Vec<&str> = vec![];
    let mut seen: Vec<&str> = vec![];
    let mut removed = 0usize;
    let mut i = 0;
    // the language identifier part ends at the first one-character subtag
    while i < toks.len() && toks[i].len() != 1 {
        keep.push(toks[i]);
        i += 1;
    }
    while i < toks.len() {
        let t = toks[i];
        if t.len() == 1 && t.eq_ignore_ascii_case("x") {
            keep.extend_from_slice(&toks[i..]);
            break;
        }
        if t.len() == 1 && !matches!(t, "t" | "u" | "T" | "U") {
            if !t.bytes().all(|c| c.is_ascii_lowercase() || c.is_ascii_digit()) || seen.contains(&t) {
                return None;
            }
            seen.push(t);
            let mut n = 0;
            i += 1;
            while i < toks.len() && toks[i].len() != 1 {
                let b = toks[i];
                if !(2..=8).contains(&b.len()) || !b.bytes().all(|c| c.is_ascii_lowercase() || c.is_ascii_digit()) {
                    return None;
                }
                n += 1;
                i += 1;
            }
            if n == 0 {
                return None;
            }
            removed += 1;
            continue;
        }
        keep.push(t);
        i += 1;
    }
    Some((keep.join("-"), removed))
}

pub fn classify_locale(input: &[u8]) -> Zone {
    classify_locale_full(input).0
}

/// Zone plus every latitude reason that applied (the zone carries only the first).
pub fn classify_locale_full(input: &[u8]) -> (Zone, Vec<&'static str>) {
    let mut reasons: Vec<&'static str> = vec![];
    let z = classify_inner(input, &mut reasons);
    (z, reasons)
}

struct Lenient<'a> {
    first: Option<&'static str>,
    all: &'a mut Vec<&'static str>,
}
impl<'a> Lenient<'a> {
    fn set(&mut self, r: &'static str) {
        if self.first.is_none() {
            self.first = Some(r);
        }
        if !self.all.contains(&r) {
            self.all.push(r);
        }
    }
}

fn classify_inner(input: &[u8], reasons: &mut Vec<&'static str>) -> Zone {
    let mut lenient = Lenient { first: None, all: reasons };
    let st = split(input);
    // malformed bytes anywhere
    for s in &st {
        if !s.is_empty() && !alnum(s) {
            return Zone::MustReject("non-alphanumeric byte");
        }
    }
    let Some((id, n)) = langid_prefix(&st) else {
        return Zone::MustReject("first subtag is not a language");
    };
    // empty subtags: only tolerated in the extension part at an extension boundary
    let rest = &st[n..];
    let mut cleaned: Vec<&[u8]> = Vec::new();
    let mut i0 = 0;
    while i0 < rest.len() {
        if rest[i0].is_empty() {
            let mut j = i0;
            while j < rest.len() && rest[j].is_empty() {
                j += 1;
            }
            let prev_single = i0 > 0 && rest[i0 - 1].len() == 1;
            let next_single = j < rest.len() && rest[j].len() == 1;
            if prev_single || next_single || j == rest.len() || i0 == 0 {
                lenient.set("empty subtag at extension boundary");
                i0 = j;
                continue;
            }
            return Zone::MustReject("empty subtag");
        }
        cleaned.push(rest[i0]);
        i0 += 1;
    }
    let rest = cleaned;
    let mut loc = Loc {
        id,
        ..Default::default()
    };
    let mut i = 0;
    let (mut seen_u, mut seen_t) = (false, false);
    let mut outside: Option<&'static str> = None;
    let mut other = false;
    let mut seen_other: Vec<u8> = vec![];
    while i < rest.len() {
        let s = rest[i];
        if s.len() != 1 {
            return Zone::MustReject("misplaced subtag / multi-character singleton");
        }
        let c = s[0].to_ascii_lowercase();
        i += 1;
        match c {
            b'u' => {
                if seen_u {
                    return Zone::MustReject("repeated singleton u");
                }
                seen_u = true;
                let start = i;
                while i < rest.len() && (3..=8).contains(&rest[i].len()) {
                    loc.attrs.push(lower(rest[i]));
                    i += 1;
                }
                let n_attr = loc.attrs.len();
                loc.attrs.sort();
                loc.attrs.dedup();
                if loc.attrs.len() != n_attr {
                    lenient.set("duplicate attribute");
                }
                while i < rest.len() && rest[i].len() == 2 {
                    let k = rest[i];
                    if !is_ukey(k) {
                        return Zone::MustReject("malformed keyword key");
                    }
                    let key = lower(k);
                    i += 1;
                    let mut vals = vec![];
                    while i < rest.len() && (3..=8).contains(&rest[i].len()) {
                        let v = lower(rest[i]);
                        if v != "true" {
                            vals.push(v);
                        }
                        i += 1;
                    }
                    if loc.keywords.insert(key, vals).is_some() {
                        outside = Some("duplicate keyword key");
                    }
                }
                if i == start {
                    lenient.set("empty -u- body");
                }
                if i < rest.len() && rest[i].len() > 8 {
                    return Zone::MustReject("over-long subtag");
                }
            }
            b't' => {
                if seen_t {
                    return Zone::MustReject("repeated singleton t");
                }
                seen_t = true;
                let start = i;
                if i < rest.len() && is_lang(rest[i]) {
                    let (tl, k) = langid_prefix(&rest[i..]).unwrap();
                    loc.tlang = Some(tl);
                    i += k;
                }
                while i < rest.len() && is_tkey(rest[i]) {
                    let key = lower(rest[i]);
                    i += 1;
                    let mut vals = vec![];
                    let mut nvals = 0;
                    while i < rest.len() && (3..=8).contains(&rest[i].len()) {
                        let v = lower(rest[i]);
                        nvals += 1;
                        if v != "true" {
                            vals.push(v);
                        }
                        i += 1;
                    }
                    if nvals == 0 {
                        lenient.set(R_TFIELD_NOVALUE);
                    }
                    if loc.tfields.insert(key, vals).is_some() {
                        outside = Some("duplicate tfield key");
                    }
                }
                if i == start {
                    lenient.set("empty -t- body");
                }
                if i < rest.len() && rest[i].len() != 1 {
                    return Zone::MustReject("misplaced subtag in -t-");
                }
            }
            b'x' => {
                let start = i;
                while i < rest.len() {
                    if rest[i].len() > 8 {
                        return Zone::MustReject("over-long private subtag");
                    }
                    loc.private.push(lower(rest[i]));
                    i += 1;
                }
                loc.private.sort();
                if i == start {
                    lenient.set("empty -x- body");
                }
            }
            _ => {
                // other extension: body = (2..8 alnum)+; a repeated singleton is ill-formed whatever the letter
                if seen_other.contains(&c) {
                    return Zone::MustReject("repeated singleton");
                }
                seen_other.push(c);
                other = true;
                let start = i;
                while i < rest.len() && (2..=8).contains(&rest[i].len()) {
                    i += 1;
                }
                if i == start {
                    lenient.set("empty other-extension body");
                }
                if i < rest.len() && rest[i].len() != 1 {
                    return Zone::MustReject("over-long subtag");
                }
            }
        }
    }
    if other {
        return Zone::EitherAny("other extension");
    }
    if let Some(o) = outside {
        return Zone::Outside(o);
    }
    if let Some(l) = lenient.first {
        return Zone::Either(loc, l);
    }
    Zone::MustAccept(loc)
}

// ------------------------------------------------------------------ token classes (signatures)

/// Class of one subtag for coverage signatures: the length bucket x character pattern
/// distinctions the grammar makes (23 classes). Two inputs with the same class sequence
/// exercise the same length/class decisions in the parsers.
pub fn token_class(t: &[u8]) -> u64 {
    if t.is_empty() {
        return 0;
    }
    if !t.is_ascii() {
        return 1;
    }
    if !alnum(t) {
        return 2;
    }
    let a = |b: u8| b.is_ascii_alphabetic();
    match t.len() {
        1 => match t[0].to_ascii_lowercase() {
            b'u' => 3,
            b't' => 4,
            b'x' => 5,
            c if a(c) => 6,
            _ => 7,
        },
        2 => match (a(t[0]), a(t[1])) {
            (true, true) => 8,
            (true, false) => 9,
            (false, true) => 10,
            (false, false) => 11,
        },
        3 => {
            if t.eq_ignore_ascii_case(b"und") {
                21
            } else if alpha(t) {
                12
            } else if digit(t) {
                13
            } else {
                14
            }
        }
        4 => {
            if t.eq_ignore_ascii_case(b"true") {
                22
            } else if alpha(t) {
                15
            } else if t[0].is_ascii_digit() {
                16
            } else {
                17
            }
        }
        5..=8 => {
            if alpha(t) {
                18
            } else {
                19
            }
        }
        _ => 20,
    }
}

pub fn class_seq_hash(tag: u64, input: &[u8], outcome: u64) -> u64 {
    let mut h = crate::mon::SigH::new(tag);
    for t in input.split(|c| *c == b'-' || *c == b'_').take(5) {
        h.u(token_class(t));
    }
    h.u(0xffff).u(n_subtags(input).min(12) as u64).u(outcome);
    h.fin()
}
pub fn n_subtags(input: &[u8]) -> usize {
    input.iter().filter(|c| **c == b'-' || **c == b'_').count() + 1
}
