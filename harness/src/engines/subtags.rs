//! C15: each subtag type accepts exactly its production and normalises case.

use crate::gen::BOUNDARY_BYTES;
use crate::mon::{self, fail, guard, Ctx, Fail, SigH};
use crate::refspec::{subtag_expect, SubtagKind};
use crate::rng::{mix, Rng};
use serde_json::json;
use std::convert::TryFrom;
use unic_langid_impl::subtags::{Language, Region, Script, Variant};

pub const KINDS: [SubtagKind; 4] = [SubtagKind::Language, SubtagKind::Script, SubtagKind::Region, SubtagKind::Variant];

pub fn kind_name(k: SubtagKind) -> &'static str {
    match k {
        SubtagKind::Language => "language",
        SubtagKind::Script => "script",
        SubtagKind::Region => "region",
        SubtagKind::Variant => "variant",
    }
}

/// What the library exposes for an accepted subtag: (as_str, Display, == expected text,
/// == raw input, extra facts)
struct Seen {
    as_str: String,
    display: String,
    eq_expected: bool,
    eq_raw: Option<bool>,
    /// == with strings that merely start with / are a prefix of / case-differ from the canonical text, and with proper
    /// prefixes / suffixes that alias the subtag's own `as_str()` storage (must all be false)
    eq_other: bool,
    into_str: Option<String>,
    is_empty: Option<bool>,
}

fn observe(kind: SubtagKind, b: &[u8], expected: &str) -> Result<Option<Seen>, String> {
    let raw = std::str::from_utf8(b).ok();
    // strings that are NOT the canonical text but share a long prefix / differ only in case or length
    let mut others: Vec<String> = vec![format!("{}1", expected), format!("{}a", expected), format!("{}-{}", expected, expected), format!("{}\0", expected)];
    if expected.len() > 1 {
        others.push(expected[..expected.len() - 1].to_string());
    }
    for alt in [expected.to_ascii_uppercase(), expected.to_ascii_lowercase()] {
        if alt != expected {
            others.push(alt);
        }
    }
    guard(|| match kind {
        SubtagKind::Language => Language::from_bytes(b).ok().map(|t| Seen {
            as_str: t.as_str().to_string(),
            display: t.to_string(),
            eq_expected: t == expected,
            eq_raw: raw.map(|r| t == r),
            eq_other: others.iter().any(|o| t == o.as_str()) || { let own = t.as_str(); (0..own.len()).any(|k| t == &own[..k] || (k > 0 && t == &own[k..])) },
            into_str: None,
            is_empty: Some(t.is_empty()),
        }),
        SubtagKind::Script => Script::from_bytes(b).ok().map(|t| Seen {
            as_str: t.as_str().to_string(),
            display: t.to_string(),
            eq_expected: t == expected,
            eq_raw: raw.map(|r| t == r),
            eq_other: others.iter().any(|o| t == o.as_str()) || { let own = t.as_str(); (0..own.len()).any(|k| t == &own[..k] || (k > 0 && t == &own[k..])) },
            into_str: Some(<&str>::from(&t).to_string()),
            is_empty: None,
        }),
        SubtagKind::Region => Region::from_bytes(b).ok().map(|t| Seen {
            as_str: t.as_str().to_string(),
            display: t.to_string(),
            eq_expected: t == expected,
            eq_raw: raw.map(|r| t == r),
            eq_other: others.iter().any(|o| t == o.as_str()) || { let own = t.as_str(); (0..own.len()).any(|k| t == &own[..k] || (k > 0 && t == &own[k..])) },
            into_str: Some(<&str>::from(&t).to_string()),
            is_empty: None,
        }),
        SubtagKind::Variant => Variant::from_bytes(b).ok().map(|t| Seen {
            as_str: t.as_str().to_string(),
            display: t.to_string(),
            eq_expected: t == expected && t == *expected,
            eq_raw: raw.map(|r| t == r && t == *r),
            eq_other: others.iter().any(|o| t == o.as_str() || t == *o.as_str()) || { let own = t.as_str(); (0..own.len()).any(|k| t == &own[..k] || t == own[..k] || (k > 0 && (t == &own[k..] || t == own[k..]))) },
            into_str: None,
            is_empty: None,
        }),
    })
}

fn from_str_ok(kind: SubtagKind, s: &str) -> Result<Option<String>, String> {
    guard(|| match kind {
        SubtagKind::Language => s.parse::<Language>().ok().map(|t| t.to_string()),
        SubtagKind::Script => s.parse::<Script>().ok().map(|t| t.to_string()),
        SubtagKind::Region => s.parse::<Region>().ok().map(|t| t.to_string()),
        SubtagKind::Variant => s.parse::<Variant>().ok().map(|t| t.to_string()),
    })
}

pub fn c15_check_kind(kind: SubtagKind, b: &[u8]) -> Vec<Fail> {
    let mut out = vec![];
    let kn = kind_name(kind);
    let exp = subtag_expect(kind, b);
    let seen = match observe(kind, b, exp.as_deref().unwrap_or("")) {
        Ok(s) => s,
        Err(p) => {
            out.push(fail(format!("{}:panic", kn), p));
            return out;
        }
    };
    match (&exp, &seen) {
        (None, None) => {}
        (Some(e), None) => out.push(fail(format!("{}:must-accept-rejected", kn), format!("{:?} is in the production (expected text {:?}) but was rejected", String::from_utf8_lossy(b), e))),
        (None, Some(s)) => out.push(fail(format!("{}:must-reject-accepted", kn), format!("{:?} is not in the production but was accepted as {:?}", String::from_utf8_lossy(b), s.as_str))),
        (Some(e), Some(s)) => {
            if s.as_str != *e {
                out.push(fail(format!("{}:as_str", kn), format!("expected {:?}, as_str() = {:?}", e, s.as_str)));
            }
            if s.display != *e {
                out.push(fail(format!("{}:display", kn), format!("expected {:?}, to_string() = {:?}", e, s.display)));
            }
            if !s.eq_expected {
                out.push(fail(format!("{}:eq-str", kn), format!("subtag != its canonical text {:?}", e)));
            }
            if s.eq_other {
                out.push(fail(format!("{}:eq-str", kn), format!("subtag with canonical text {:?} compares equal to a different string (a longer / shorter / differently cased one)", e)));
            }
            if let Some(r) = s.eq_raw {
                let raw = std::str::from_utf8(b).unwrap();
                if r != (raw == e) {
                    out.push(fail(format!("{}:eq-str", kn), format!("subtag == {:?} is {} but canonical text is {:?}", raw, r, e)));
                }
            }
            if let Some(i) = &s.into_str {
                if i != e {
                    out.push(fail(format!("{}:into-str", kn), format!("expected {:?}, <&str>::from = {:?}", e, i)));
                }
            }
            if let Some(em) = s.is_empty {
                if em != (e == "und") {
                    out.push(fail(format!("{}:und", kn), format!("is_empty() = {} for {:?}", em, e)));
                }
            }
        }
    }
    if let Ok(s) = std::str::from_utf8(b) {
        match from_str_ok(kind, s) {
            Err(p) => out.push(fail(format!("{}:panic", kn), p)),
            Ok(x) => {
                if x != seen.as_ref().map(|s| s.display.clone()) {
                    out.push(fail(format!("{}:from_str-differs", kn), format!("from_bytes -> {:?}, from_str -> {:?}", seen.as_ref().map(|s| &s.display), x)));
                }
            }
        }
    }
    // the same comparison on the values themselves (the text alone cannot tell the empty language from a language
    // that merely prints as "und")
    {
        let same = guard(|| {
            let st = std::str::from_utf8(b).ok();
            match kind {
                SubtagKind::Language => {
                    let a = Language::from_bytes(b).ok();
                    let c = Language::try_from(Some(b)).ok();
                    let consistent = a.map_or(true, |x| x.is_empty() == (x == Language::default()));
                    a == c && consistent && st.map_or(true, |s| s.parse::<Language>().ok() == a && Language::try_from(Some(s)).ok() == a)
                }
                SubtagKind::Script => st.map_or(true, |s| s.parse::<Script>().ok() == Script::from_bytes(b).ok()),
                SubtagKind::Region => st.map_or(true, |s| s.parse::<Region>().ok() == Region::from_bytes(b).ok()),
                SubtagKind::Variant => st.map_or(true, |s| s.parse::<Variant>().ok() == Variant::from_bytes(b).ok()),
            }
        });
        match same {
            Err(p) => out.push(fail(format!("{}:panic", kn), p)),
            Ok(true) => {}
            Ok(false) => out.push(fail(format!("{}:constructors-differ", kn), format!("from_bytes, FromStr and TryFrom(Some) do not build equal values from {:?} (or is_empty() disagrees with == default())", String::from_utf8_lossy(b)))),
        }
    }
    if kind == SubtagKind::Language {
        match guard(|| Language::try_from(Some(b)).ok().map(|t| t.to_string())) {
            Err(p) => out.push(fail("language:panic", p)),
            Ok(x) => {
                if x != seen.as_ref().map(|s| s.display.clone()) {
                    out.push(fail("language:try_from-differs", format!("from_bytes -> {:?}, try_from(Some) -> {:?}", seen.map(|s| s.display), x)));
                }
            }
        }
    }
    out
}

/// Replay entry: first byte selects the kind (0..3), rest is the subtag.
pub fn c15_replay(b: &[u8]) -> Vec<Fail> {
    if b.is_empty() {
        return vec![];
    }
    c15_check_kind(KINDS[(b[0] & 3) as usize], &b[1..])
}

fn byte_class(b: u8) -> u64 {
    if b.is_ascii_lowercase() {
        0
    } else if b.is_ascii_uppercase() {
        1
    } else if b.is_ascii_digit() {
        2
    } else {
        3
    }
}

fn one(ctx: &mut Ctx, b: &[u8]) {
    mon::begin_case(b);
    for (ki, kind) in KINDS.iter().enumerate() {
        ctx.evals += 1;
        let exp = subtag_expect(*kind, b);
        let key: &'static str = match (ki, exp.is_some()) {
            (0, true) => "language:in-production",
            (0, false) => "language:not-in-production",
            (1, true) => "script:in-production",
            (1, false) => "script:not-in-production",
            (2, true) => "region:in-production",
            (2, false) => "region:not-in-production",
            (3, true) => "variant:in-production",
            _ => "variant:not-in-production",
        };
        ctx.count(key);
        let mut h = SigH::new(15);
        h.u(ki as u64).u(b.len().min(10) as u64).u(exp.is_some() as u64);
        for c in b.iter().take(10) {
            h.u(byte_class(*c));
        }
        ctx.sig(h.fin());
        if exp.is_some() && ctx.wants_sample(key) {
            ctx.sample(key, || json!({"type": kind_name(*kind), "bytes": String::from_utf8_lossy(b), "expected_text": exp}));
        }
        let k = *kind;
        let mut tagged = vec![ki as u8];
        tagged.extend_from_slice(b);
        // judge on the tagged form so that shrinking keeps the kind
        let fails = c15_check_kind(k, b);
        if !fails.is_empty() {
            ctx.judge_bytes(&tagged, &mut |t| if t.is_empty() || (t[0] & 3) as usize != ki { vec![] } else { c15_check_kind(k, &t[1..]) });
        }
    }
}

pub fn run_c15(ctx: &mut Ctx) {
    let (shard, n) = (ctx.shard as u64, ctx.nshards as u64);
    let quick = ctx.quick();
    // (1) every byte string of length 0..=3
    let total: u64 = 1 + 256 + 65536 + 16_777_216;
    let mut idx = shard;
    let mut buf = [0u8; 3];
    while idx < total {
        let (len, x) = if idx < 1 {
            (0, 0)
        } else if idx < 257 {
            (1, idx - 1)
        } else if idx < 257 + 65536 {
            (2, idx - 257)
        } else {
            (3, idx - 257 - 65536)
        };
        buf[0] = (x & 0xff) as u8;
        buf[1] = ((x >> 8) & 0xff) as u8;
        buf[2] = ((x >> 16) & 0xff) as u8;
        one(ctx, &buf[..len]);
        idx += n;
    }
    ctx.count_n("space:all-bytes-len0-3", (total - shard + n - 1) / n);
    // (2) boundary-byte strings of length 4..=L over 19 bytes
    let maxl = if quick { 6 } else { 7 };
    let k = BOUNDARY_BYTES.len() as u64;
    let mut b = [0u8; 9];
    for len in 4..=maxl {
        let total = k.pow(len as u32);
        let mut idx = shard;
        while idx < total {
            let mut x = idx;
            for j in 0..len {
                b[j] = BOUNDARY_BYTES[(x % k) as usize];
                x /= k;
            }
            one(ctx, &b[..len]);
            idx += n;
        }
    }
    // (3) length 8..9 over an 8-byte sub-alphabet
    const SUB: [u8; 8] = [b'a', b'z', b'A', b'0', b'9', b'-', 0x80, b'{'];
    for len in 8..=(if quick { 8 } else { 9 }) {
        let total = 8u64.pow(len as u32);
        let mut idx = shard;
        while idx < total {
            let mut x = idx;
            for j in 0..len {
                b[j] = SUB[(x & 7) as usize];
                x >>= 3;
            }
            one(ctx, &b[..len]);
            idx += n;
        }
    }
    // (4) every single-byte substitution of a pool of valid subtags of every length
    const POOL: &[&str] = &[
        "en", "EN", "abc", "und", "UND", "abcde", "abcdef", "abcdefg", "abcdefgh", "Latn", "lATN", "ZZZZ", "US", "us", "001", "999",
        "1abc", "1ABC", "0000", "9zz9", "a1b2c", "valencia", "12345678", "1a2b3c4d", "macos", "AbCdE", "true", "root",
    ];
    let mut i = 0u64;
    for p in POOL {
        for pos in 0..p.len() {
            for v in 0..=255u8 {
                if i % n == shard {
                    let mut t = p.as_bytes().to_vec();
                    t[pos] = v;
                    one(ctx, &t);
                    ctx.count("space:single-byte-substitutions");
                }
                i += 1;
            }
        }
        // one byte appended / removed
        for v in [b'a', b'Z', b'0', b'-', 0u8, 0x80] {
            if i % n == shard {
                let mut t = p.as_bytes().to_vec();
                t.push(v);
                one(ctx, &t);
            }
            i += 1;
        }
    }
    // (5) random byte strings of length 0..=12 (class-biased)
    let nr = if quick { 2_000_000u64 } else { 100_000_000 } / n;
    let mut r = Rng::new(mix(&[ctx.seed, shard, 0xC15]));
    let mut t = Vec::with_capacity(16);
    for _ in 0..nr {
        t.clear();
        let len = r.below(13);
        let mode = r.below(4);
        for _ in 0..len {
            let c = match mode {
                0 => *r.pick(b"abcdefghijklmnopqrstuvwxyzABCDEFGHIJKLMNOPQRSTUVWXYZ"),
                1 => *r.pick(b"abcxyzABCXYZ0123456789"),
                2 => *r.pick(BOUNDARY_BYTES),
                _ => (r.next() & 0xff) as u8,
            };
            t.push(c);
        }
        ctx.rng_state = Some(r.state());
        one(ctx, &t);
    }
    ctx.rng_state = None;
    mon::idle();
    // (6) the empty language through the other constructors
    ctx.evals += 1;
    let mut l = Language::from_bytes(b"en").unwrap_or_default();
    l.clear();
    let d = Language::default();
    let t: Language = match Language::try_from(None::<&[u8]>) {
        Ok(t) => t,
        Err(e) => {
            ctx.add_violation("language:und", json!({"constructor": "try_from(None)"}), json!(null), format!("Language::try_from(None) returned {:?}", e));
            ctx.viol_total += 1;
            Language::default()
        }
    };
    for (what, x) in [("clear()", l), ("default()", d), ("try_from(None)", t)] {
        let Ok(und) = Language::from_bytes(b"und") else { continue };
        if x.as_str() != "und" || x.to_string() != "und" || !x.is_empty() || x != "und" || x != und || Option::<u64>::from(x).is_some() {
            ctx.add_violation("language:und", json!({"constructor": what}), json!(null), format!("{} is not the empty language 'und': as_str={:?}", what, x.as_str()));
            ctx.viol_total += 1;
        }
    }
    ctx.extra.insert(
        "workload".into(),
        json!(format!(
            "x4 subtag types: every byte string of length 0-3 (16843009, exhaustive); every string of length 4-{} over the 19 boundary bytes; length 8-{} over 8 bytes; every single-byte substitution of {} valid subtags; {} random strings",
            maxl, if quick { 8 } else { 9 }, POOL.len(), nr * n
        )),
    );
    ctx.extra.insert("floors".into(), json!({"language:in-production": 1000, "script:in-production": 1000, "region:in-production": 1000, "variant:in-production": 1000}));
}
